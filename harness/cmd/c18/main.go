// Driver for C18 (logout redirects only to post-logout URIs registered for the proven
// client). A case is ONE provider instance (issuer mode, verification options, storage
// capabilities, two client registrations) and 1-4 end-session requests sent to it in sequence
// over HTTP (recorder), each on one of the two routers of the shared fixture; id_token_hints
// are really signed (the provider's keys or somebody else's). path.Match and url.Parse are
// recorded per case as oracle tables.
package main

import (
	"context"
	"crypto/ecdsa"
	"crypto/rsa"
	"encoding/json"
	"errors"
	"fmt"
	"net/http"
	"net/http/httptest"
	"net/url"
	"os"
	"path"
	"slices"
	"sort"
	"strings"
	"time"

	jose "github.com/go-jose/go-jose/v4"

	"verifharness/drv"
	"verifharness/emit"
	"verifharness/opfix"
	"verifharness/refstore"

	"github.com/zitadel/oidc/v3/pkg/oidc"
	"github.com/zitadel/oidc/v3/pkg/op"
)

// ---------------------------------------------------------------- oracles

func purl(u string) string {
	pu, err := url.Parse(u)
	if err != nil {
		return emit.None
	}
	c := *pu
	c.RawQuery, c.ForceQuery, c.Fragment, c.RawFragment = "", false, "", ""
	pre := c.String()
	q := pu.Query()
	keys := make([]string, 0, len(q))
	for k := range q {
		keys = append(keys, k)
	}
	sort.Strings(keys)
	var le, gt []string
	for _, k := range keys {
		for _, v := range q[k] {
			p := emit.Pair(emit.Str(k), emit.Str(v))
			if k <= "state" {
				le = append(le, p)
			} else {
				gt = append(gt, p)
			}
		}
	}
	frag := emit.None
	if pu.Fragment != "" {
		frag = emit.Some(emit.Str(pu.EscapedFragment()))
	}
	return emit.Some(emit.Ctor("Build_purl", emit.Str(pre), emit.List(le), emit.List(gt), frag))
}

func tables(clients []*refstore.Client, uris []string, parse []string) string {
	var pm []string
	seen := map[string]bool{}
	for _, c := range clients {
		if !c.UseGlobs {
			continue
		}
		for _, g := range c.PostLogoutGlobs {
			for _, uri := range uris {
				if seen[g+"\x00"+uri] {
					continue
				}
				seen[g+"\x00"+uri] = true
				m, err := path.Match(g, uri)
				r := "PNoMatch"
				if err != nil {
					r = "PBad"
				} else if m {
					r = "PMatch"
				}
				pm = append(pm, "("+emit.Str(g)+", "+emit.Str(uri)+", "+r+")")
			}
		}
	}
	var up []string
	seenU := map[string]bool{}
	for _, u := range parse {
		if !seenU[u] {
			seenU[u] = true
			up = append(up, emit.Pair(emit.Str(u), purl(u)))
		}
	}
	return emit.Ctor("Build_tables", emit.List(pm), emit.List(up))
}

func clientTerm(c *refstore.Client) string {
	globs := emit.None
	if c.UseGlobs {
		globs = emit.Some(emit.StrList(c.PostLogoutGlobs))
	}
	return emit.Ctor("Build_lclient", emit.Str(c.ID), emit.StrList(c.PostLogout), globs, emit.StrList(c.RedirectGlobs))
}

// ---------------------------------------------------------------- generators

var postPool = []string{"https://app.example.com/bye", "https://app.example.com/bye?x=1", "https://app.example.com/out#top",
	"myapp://bye", "http://localhost:3000/bye", "https://app.example.com/bye?z=9&state=old&a=1", "https://app.example.com/a%20b",
	"https://other.example.org/logout/done", "https://[2001:db8::1]/bye", "https://rp.example/bye?src=op", "https://app.example.com/done/", "https://app.example.com/Bye"}
var plGlobPool = []string{"https://app.example.com/*", "https://*.example.com/bye", "https://app.example.com/by?", "myapp://*",
	"https://app.example.com/[a-c]ye", "https://[", "https://app.example.com/[a-", "https://app.example.com/bye\\", "*", "https://app.example.com/*/*"}
var plShots = []string{"https://app.example.com/anything", "https://sub.example.com/bye", "https://app.example.com/byX", "myapp://x",
	"https://app.example.com/aye", "https://app.example.com/a/b", "https://evil.example/bye", "https://app.example.com/x/y/z", "urn:evil"}

func genClient(r drv.Rand, id string) *refstore.Client {
	c := &refstore.Client{ID: id, Secret: "s", App: op.ApplicationTypeWeb, Auth: oidc.AuthMethodBasic,
		RespTypes: []oidc.ResponseType{oidc.ResponseTypeCode, oidc.ResponseTypeIDTokenOnly}, Redirects: []string{"https://app.example.com/cb"}}
	c.App = drv.Pick(r, []op.ApplicationType{op.ApplicationTypeWeb, op.ApplicationTypeWeb, op.ApplicationTypeNative, op.ApplicationTypeNative, op.ApplicationTypeUserAgent})
	n := r.IntN(4)
	for i := 0; i < n; i++ {
		c.PostLogout = append(c.PostLogout, drv.Pick(r, postPool))
	}
	if r.Chance(1, 3) { // a loopback post-logout URI (logout has no RFC 8252 loopback rule: exact or opted-in glob only)
		c.PostLogout = append(c.PostLogout, drv.Pick(r, loopbackPool))
	}
	if r.Chance(1, 2) {
		c.UseGlobs = true
		ng := r.IntN(3) // HasRedirectGlobs without any registered glob is possible
		for i := 0; i < ng; i++ {
			c.PostLogoutGlobs = append(c.PostLogoutGlobs, drv.Pick(r, plGlobPool))
		}
		// the globs for the AUTHORIZATION redirect_uri are another list: empty, the same, disjoint, overlapping
		switch r.IntN(6) {
		case 0:
		case 1:
			c.RedirectGlobs = append([]string{}, c.PostLogoutGlobs...)
		case 2:
			for i, n := 0, 1+r.IntN(2); i < n; i++ {
				c.RedirectGlobs = append(c.RedirectGlobs, drv.Pick(r, authGlobPool))
			}
		case 3:
			c.RedirectGlobs = append(append([]string{}, c.PostLogoutGlobs...), drv.Pick(r, authGlobPool))
		case 4:
			c.RedirectGlobs = []string{drv.Pick(r, authGlobPool)}
			if len(c.PostLogoutGlobs) > 0 {
				c.RedirectGlobs = append(c.RedirectGlobs, c.PostLogoutGlobs[0])
			}
		default:
			for i, n := 0, 1+r.IntN(3); i < n; i++ {
				c.RedirectGlobs = append(c.RedirectGlobs, drv.Pick(r, append(append([]string{}, plGlobPool...), authGlobPool...)))
			}
		}
	}
	return c
}

// globs a client registers for its authorization redirect_uri (doublestar syntax is legal there)
var authGlobPool = []string{"https://app.example.com/cb/*", "https://evil.example/*", "https://app.example.com/*", "https://*.example.com/bye", "myapp://*",
	"https://sub.example.com/*", "https://app.example.com/a/*", "https://app.example.com/**", "https://app.example.com/{cb,bye}x", "*", "https://[", "https://app.example.com/x/*/*", "urn:*"}

// patternInstance: a string the registered URI reg would match if it were read as a
// path.Match pattern (which nobody opted into). ok=false when reg has no metacharacter.
func patternInstance(r drv.Rand, reg string) (string, bool) {
	var sb strings.Builder
	for i := 0; i < len(reg); i++ {
		switch ch := reg[i]; ch {
		case '?':
			sb.WriteByte(drv.Pick(r, []byte("Xz9")))
		case '*':
			sb.WriteString(drv.Pick(r, []string{"", "evil", "x.y"}))
		case '[':
			j := strings.IndexByte(reg[i+1:], ']')
			if j <= 0 {
				return "", false
			}
			class := strings.TrimLeft(reg[i+1:i+1+j], "^")
			if class == "" {
				return "", false
			}
			sb.WriteByte(class[r.IntN(len(class))])
			i += j + 1
		default:
			sb.WriteByte(ch)
		}
	}
	out := sb.String()
	if m, err := path.Match(reg, out); out == reg || err != nil || !m {
		return "", false
	}
	return out, true
}

var loopbackPool = []string{"http://127.0.0.1:3000/bye", "http://localhost:3000/bye", "http://[::1]:3000/bye", "http://127.0.0.1/done?x=1", "http://localhost/done", "http://127.0.0.1:8080/cb/out?a=1&b=2"}

// loopbackNear: loopback URIs with the path and query of reg but another port / spelling of
// the host / scheme / userinfo / fragment. ok=false when reg is no loopback URI.
func loopbackNear(r drv.Rand, reg string) (string, bool) {
	u, err := url.Parse(reg)
	if err != nil || !(u.Hostname() == "localhost" || u.Hostname() == "127.0.0.1" || u.Hostname() == "::1") {
		return "", false
	}
	rest := u.EscapedPath()
	if u.RawQuery != "" {
		rest += "?" + u.RawQuery
	}
	host := drv.Pick(r, []string{"127.0.0.1", "localhost", "[::1]", "127.0.0.2", "LOCALHOST", "0.0.0.0"})
	port := drv.Pick(r, []string{"", ":3000", ":3001", ":49152", ":80", ":0"})
	out := drv.Pick(r, []string{"http", "http", "https", "HTTP"}) + "://" + drv.Pick(r, []string{"", "", "", "user@"}) + host + port + rest + drv.Pick(r, []string{"", "", "", "#frag"})
	return out, out != reg
}

func mutate(r drv.Rand, base string) (string, string) {
	if u, ok := loopbackNear(r, base); ok && r.Chance(2, 3) {
		return u, "loopbacknear"
	}
	if u, ok := patternInstance(r, base); ok && r.Bool() {
		return u, "patshot"
	}
	switch r.IntN(9) {
	case 0:
		return base + drv.Pick(r, []string{"/x", "x", "?x=1", "#f", "/../evil", "&y=2", "/", "/", " ", "%20", "+", "%2F", "?", "#"}), "suffix"
	case 1:
		return drv.Pick(r, []string{"https://evil.example/?u=", "https://evil.example/", "x"}) + base, "prefix"
	case 2:
		if i := strings.Index(base, "://"); i >= 0 {
			return base[:i+3] + "evil.example@" + base[i+3:], "userinfo"
		}
		return "evil@" + base, "userinfo"
	case 3:
		if i := strings.Index(base, "://"); i >= 0 {
			rest := base[i+3:]
			j := strings.IndexAny(rest, "/?#")
			if j < 0 {
				j = len(rest)
			}
			return base[:i+3] + strings.ToUpper(rest[:j]) + rest[j:], "hostcase"
		}
		return strings.ToUpper(base), "hostcase"
	case 4:
		return drv.Pick(r, []string{"https://evil.example/bye", "javascript:alert(1)", "//evil.example/bye", "https://app.example.com.evil.example/bye"}), "foreign"
	case 5:
		return drv.Pick(r, []string{"https://app.example.com/%zz", base + "\x7f", "http://[::1/bye", ":"}), "unparseable"
	case 6:
		if r.Bool() { // exact comparison: no trailing-slash or case normalisation
			if t := strings.TrimSuffix(base, "/"); t != base {
				return t, "trimslash"
			}
			if i := strings.Index(base, "://"); i >= 0 {
				if t := base[:i+3] + swapCase(base[i+3:]); t != base {
					return t, "pathcase"
				}
			}
		}
		if strings.HasPrefix(base, "https://") {
			return "http://" + base[8:], "scheme"
		}
		return "https://" + strings.TrimPrefix(base, "http://"), "scheme"
	default:
		return drv.Pick(r, plShots), "globshot"
	}
}

// swapCase flips the case of the ASCII letters after the authority (host case is mutate's case 3)
func swapCase(rest string) string {
	j := strings.IndexAny(rest, "/?#")
	if j < 0 {
		return rest
	}
	b := []byte(rest)
	for i := j; i < len(b); i++ {
		switch {
		case b[i] >= 'a' && b[i] <= 'z':
			b[i] -= 32
		case b[i] >= 'A' && b[i] <= 'Z':
			b[i] += 32
		}
	}
	return string(b)
}

var states = []string{"xyz", "a b&c=d", "a+b", "%41%zz", "\xc3\xbc\xe2\x82\xac", "#frag?x=1", "\x00\x7f\xff", "=&=&", "state", "https://evil.example/?state=1",
	"null", "NULL", "nil", "undefined", "true", "false", "0", "[]", "{}", " xyz ", "\txyz", "xyz\r\n", "xyz/", "XYZ", "%20xyz%20", "+xyz+"}

func genState(r drv.Rand) (string, string) {
	switch r.IntN(5) {
	case 0, 1:
		return "", "none"
	case 2:
		return "st-" + fmt.Sprint(r.IntN(1000)), "plain"
	case 3:
		return drv.Pick(r, states), "special"
	default:
		return string(r.Bytes(1 + r.IntN(24))), "bytes"
	}
}

// ---------------------------------------------------------------- hints

type hintSpec struct {
	kind     string // none valid expired future badsig foreign garbage tampered expbadsig keyword unknownkid expunknownkid issued
	customs  string // kind "issued": comma-separated names of the custom userinfo claims the storage adds to the ID token
	sub, azp string
	iss      string // issuer the token is signed for ("" = the issuer of the request it is sent with)
	key      string // key of the pool that signs it ("" = k1)
	text     string // kind "keyword": the literal parameter value
}

// The key pool. k1, k2 (EC, ES256) and r1 (RSA, RS256) are the provider's own signing keys; which
// of them the storage publishes varies per request. fk and pk belong to somebody else (a partner
// whose ACCESS tokens may be trusted by a custom key set): the provider never signs with them.
func keyOf(name string) (any, jose.SignatureAlgorithm) {
	switch name {
	case "", "k1":
		return opfix.ECKey("op-k1"), jose.ES256
	case "r1":
		return opfix.RSAKey(), jose.RS256
	case "k2":
		return opfix.ECKey("op-k2"), jose.ES256
	}
	return opfix.ECKey("foreign-" + name), jose.ES256
}

func ownKey(name string) bool { return name == "" || name == "k1" || name == "k2" || name == "r1" }

func provKey(name string) *refstore.SigningKey {
	if name == "" {
		name = "k1"
	}
	priv, alg := keyOf(name)
	return &refstore.SigningKey{KID: name, Alg: alg, Priv: priv}
}

func pubOf(name string) any {
	priv, _ := keyOf(name)
	switch k := priv.(type) {
	case *ecdsa.PrivateKey:
		return &k.PublicKey
	case *rsa.PrivateKey:
		return &k.PublicKey
	}
	return nil
}

func (h hintSpec) keyName() string {
	if h.key == "" {
		return "k1"
	}
	return h.key
}

// ---------------------------------------------------------------- provider options

// ksSpec describes a custom oidc.KeySet (C18_Session.keyset): it trusts what the storage
// publishes while the request is served (own) and / or the named keys of the pool.
type ksSpec struct {
	own   bool
	fixed []string
}

type customKeySet struct {
	own   oidc.KeySet // nil: the storage's keys are not consulted
	fixed []string
}

func (k *customKeySet) VerifySignature(ctx context.Context, jws *jose.JSONWebSignature) ([]byte, error) {
	if k.own != nil {
		if payload, err := k.own.VerifySignature(ctx, jws); err == nil {
			return payload, nil
		}
	}
	if len(jws.Signatures) != 1 {
		return nil, errors.New("c18: exactly one signature expected")
	}
	kid := jws.Signatures[0].Header.KeyID
	for _, name := range k.fixed {
		if name == kid {
			return jws.Verify(pubOf(name))
		}
	}
	return nil, errors.New("c18: key not trusted")
}

// optSpec is one provider option (C18_Session.popt); ks indexes esCase.keysets, so that the
// same index is the same Go object.
type optSpec struct {
	kind string // atkeys hintkeys atalgs hintalgs
	ks   int
	algs []string
}

func (k ksSpec) term() string {
	return emit.Ctor("Build_keyset", emit.Bool(k.own), emit.StrList(k.fixed))
}

func (c esCase) optTerms() []string {
	out := []string{}
	for _, o := range c.opts {
		switch o.kind {
		case "atkeys":
			out = append(out, emit.Ctor("OptATKeys", c.keysets[o.ks].term()))
		case "hintkeys":
			out = append(out, emit.Ctor("OptHintKeys", c.keysets[o.ks].term()))
		case "atalgs":
			out = append(out, emit.Ctor("OptATAlgs", emit.StrList(o.algs)))
		case "hintalgs":
			out = append(out, emit.Ctor("OptHintAlgs", emit.StrList(o.algs)))
		}
	}
	return out
}

func (c esCase) optTag() string {
	if len(c.opts) == 0 {
		return "opts=none"
	}
	seen := map[string]bool{}
	first := ""
	for _, o := range c.opts {
		seen[o.kind] = true
		if first == "" && (o.kind == "atkeys" || o.kind == "hintkeys") {
			first = o.kind
		}
	}
	var ks []string
	for _, k := range []string{"atkeys", "hintkeys", "atalgs", "hintalgs"} {
		if seen[k] {
			ks = append(ks, k)
		}
	}
	t := "opts=" + strings.Join(ks, "+")
	if seen["atkeys"] && seen["hintkeys"] {
		t += "/" + first + "-first"
	}
	return t
}

// hintTrusted: does the configuration the case ASKS for designate a key set / algorithms under
// which this hint is validly signed (only used to aim the TerminateSession fault at the call a
// correct provider makes).
func (c esCase) hintTrusted(h hintSpec, pub []string) bool {
	ks := ksSpec{own: true}
	var algs []string
	for _, o := range c.opts {
		switch o.kind {
		case "hintkeys":
			ks = c.keysets[o.ks]
		case "hintalgs":
			algs = o.algs
		}
	}
	if len(algs) == 0 {
		algs = []string{"RS256", "ES256", "PS256"}
	}
	_, alg := keyOf(h.keyName())
	if !slices.Contains(algs, string(alg)) {
		return false
	}
	return (ks.own && slices.Contains(pub, h.keyName())) || slices.Contains(ks.fixed, h.keyName())
}

// term: what the driver knows about the token (C18_Session.tok)
func (h hintSpec) term(current string) string {
	iss := h.iss
	if iss == "" {
		iss = current
	}
	_, a := keyOf(h.keyName())
	alg := emit.Str(string(a))
	switch h.kind {
	case "none":
		return "TNone"
	case "valid", "issued":
		return emit.Ctor("TSigned", emit.Str(h.keyName()), alg, emit.Str(iss), "false", emit.Str(h.sub), emit.Str(h.azp))
	case "expired", "future":
		return emit.Ctor("TSigned", emit.Str(h.keyName()), alg, emit.Str(iss), "true", emit.Str(h.sub), emit.Str(h.azp))
	case "foreign":
		return emit.Ctor("TSigned", emit.Str(h.keyName()), alg, emit.Str("https://evil.example"), "false", emit.Str(h.sub), emit.Str(h.azp))
	default:
		return "TBad"
	}
}

func sign(key any, kid string, alg jose.SignatureAlgorithm, claims map[string]any) string {
	signer, err := jose.NewSigner(jose.SigningKey{Algorithm: alg, Key: &jose.JSONWebKey{Key: key, KeyID: kid}}, (&jose.SignerOptions{}).WithType("JWT"))
	if err != nil {
		panic(err)
	}
	b, _ := json.Marshal(claims)
	jws, err := signer.Sign(b)
	if err != nil {
		panic(err)
	}
	s, err := jws.CompactSerialize()
	if err != nil {
		panic(err)
	}
	return s
}

// tokCache: within one case the same hint description at the same issuer is the SAME token
// string (ECDSA signatures are randomised: signing twice would give two tokens), so that a
// sequence can present one token twice - before and after its key was withdrawn, at two hosts -
// and a payload swapped under the signature of a token that was accepted a moment ago.
type tokCache map[string]string

func (tc tokCache) get(h hintSpec, current string) string {
	if h.iss == "" {
		h.iss = current
	}
	k := tcKey(h, current)
	if t, ok := tc[k]; ok {
		return t
	}
	t := h.token(current, tc)
	tc[k] = t
	return t
}

func (h hintSpec) token(current string, tc tokCache) string {
	sk := provKey(h.key)
	iss := h.iss
	if iss == "" {
		iss = current
	}
	if h.kind == "none" {
		return ""
	}
	if h.kind == "garbage" {
		return "aaa.bbb.ccc"
	}
	if h.kind == "keyword" { // what a careless client sends for "no hint"
		return h.text
	}
	if h.kind == "tampered" { // header and signature of the really signed token, somebody else's payload
		good := h
		good.kind = "valid"
		parts := strings.Split(tc.get(good, current), ".")
		now := time.Now()
		other := strings.Split(sign(sk.Priv, sk.KID, sk.Alg, map[string]any{"iss": iss, "sub": "mallory", "azp": h.azp, "aud": []string{"x"},
			"iat": now.Unix(), "exp": now.Add(time.Hour).Unix()}), ".")
		return parts[0] + "." + other[1] + "." + parts[2]
	}
	now := time.Now()
	claims := map[string]any{"iss": iss, "sub": h.sub, "aud": []string{"somebody"},
		"iat": now.Add(-2 * time.Hour).Unix(), "exp": now.Add(2 * time.Hour).Unix(), "auth_time": now.Add(-2 * time.Hour).Unix()}
	if h.azp != "" {
		claims["azp"] = h.azp
	}
	key, kid, alg := sk.Priv, sk.KID, sk.Alg
	switch h.kind {
	case "expired", "expbadsig", "expunknownkid":
		claims["exp"] = now.Add(-time.Hour).Unix()
	case "future":
		claims["iat"] = now.Add(time.Hour).Unix()
	case "foreign":
		claims["iss"] = "https://evil.example"
	}
	if h.kind == "badsig" || h.kind == "expbadsig" {
		key, alg = opfix.ECKey("attacker"), jose.ES256
	}
	if h.kind == "unknownkid" || h.kind == "expunknownkid" { // somebody's key under a kid nobody publishes
		key, alg, kid = opfix.ECKey("attacker"), jose.ES256, "retired-"+kid
		if h.key == "r1" {
			key, alg = opfix.RSAKey(), jose.RS256
		}
	}
	return sign(key, kid, alg, claims)
}

// ---------------------------------------------------------------- one case

// one provider instance and the requests sent to it in sequence
type esCase struct {
	issuerMode int    // 0 static issuer, 1 op.IssuerFromHost, 2 op.IssuerFromForwardedOrHost
	static     string // mode 0: the issuer ("" = opfix.Issuer)
	defaultU   string
	clients    []*refstore.Client
	reqs       []esReq
	tags       []string
	tsMode     string // "" storage without the optional CanTerminateSessionFromRequest; "echo" | "fixed" | "error"
	tsFixed    string
	keysets    []ksSpec  // custom key sets (one Go object each)
	opts       []optSpec // provider options, in the order they are passed to NewProvider
}

type esReq struct {
	router    opfix.Router
	host, fwd string // Request.Host and `Forwarded: host=` ("" = none)
	hint      hintSpec
	clientID  string
	uri       string
	state     string
	fault     int      // 0 none, 1 GetClientByClientID, 2 TerminateSession
	published []string // key ids the storage publishes while this request is served (nil = k1)
	method    string   // "" = GET (everything in the query) | "POST"
	primQuery bool     // POST: the four parameters above travel in the query instead of the body
	extras    []extra  // whatever else the request carries
}

// extra is one more parameter: a name the endpoint does not know (logout_hint, ui_locales, ...)
// or a known name once more with another value. hint != nil: the value is that token.
type extra struct {
	name, val string
	hint      *hintSpec
	first     bool // before the ordinary parameters of its section (else after them)
	query     bool // POST: in the query (else in the body)
}

// pair is one parameter as sent; tok != "" is the model term of an id_token_hint value.
type pair struct {
	name, val, tok string
	h              *hintSpec
}

func (q *esReq) hintPtrs() []*hintSpec {
	out := []*hintSpec{&q.hint}
	for i := range q.extras {
		if q.extras[i].hint != nil {
			out = append(out, q.extras[i].hint)
		}
	}
	return out
}

// wire lays the request out: the pairs of the body and of the query, each in sending order.
func (q esReq) wire(cur string, tc tokCache) (body, query []pair) {
	var prim []pair
	if q.hint.kind != "none" {
		h := q.hint
		prim = append(prim, pair{"id_token_hint", tc.get(h, cur), h.term(cur), &h})
	}
	if q.clientID != "" {
		prim = append(prim, pair{name: "client_id", val: q.clientID})
	}
	if q.uri != "" {
		prim = append(prim, pair{name: "post_logout_redirect_uri", val: q.uri})
	}
	if q.state != "" {
		prim = append(prim, pair{name: "state", val: q.state})
	}
	post := q.method == "POST"
	var bFirst, bLast, qFirst, qLast []pair
	for _, e := range q.extras {
		p := pair{name: e.name, val: e.val}
		if e.hint != nil {
			p.val, p.tok, p.h = tc.get(*e.hint, cur), e.hint.term(cur), e.hint
		} else if e.name == "id_token_hint" { // a literal value that is no token
			p.tok = "TBad"
			if e.val == "" {
				p.tok = "TNone"
			}
		}
		switch {
		case post && !e.query && e.first:
			bFirst = append(bFirst, p)
		case post && !e.query:
			bLast = append(bLast, p)
		case e.first:
			qFirst = append(qFirst, p)
		default:
			qLast = append(qLast, p)
		}
	}
	if post && !q.primQuery {
		body = append(append(bFirst, prim...), bLast...)
		query = append(qFirst, qLast...)
	} else {
		body = append(bFirst, bLast...)
		query = append(append(qFirst, prim...), qLast...)
	}
	return body, query
}

func encodePairs(ps []pair) string {
	var sb strings.Builder
	for i, p := range ps {
		if i > 0 {
			sb.WriteByte('&')
		}
		sb.WriteString(url.QueryEscape(p.name) + "=" + url.QueryEscape(p.val))
	}
	return sb.String()
}

// effective: what http.Request.Form + the schema decoder make of the request - the body's values
// before the query's, the LAST value of a name counts (only used to aim the storage fault and to
// fill the oracle tables; the model derives the same from r_toks / r_form itself).
func effective(body, query []pair) (hint hintSpec, clientID string, uris []string) {
	hint = hintSpec{kind: "none"}
	for _, p := range append(append([]pair{}, body...), query...) {
		switch p.name {
		case "id_token_hint":
			switch {
			case p.h != nil:
				hint = *p.h
			case p.val == "":
				hint = hintSpec{kind: "none"}
			default:
				hint = hintSpec{kind: "garbage"}
			}
		case "client_id":
			clientID = p.val
		case "post_logout_redirect_uri":
			uris = append(uris, p.val)
		}
	}
	return hint, clientID, uris
}

// send delivers the request to one router of the fixture.
func send(f *opfix.Fixture, q esReq, body, query []pair) *opfix.Resp {
	target := "https://" + q.host + "/end_session"
	if len(query) > 0 {
		target += "?" + encodePairs(query)
	}
	var req *http.Request
	if q.method == "POST" {
		req = httptest.NewRequest(http.MethodPost, target, strings.NewReader(encodePairs(body)))
		req.Header.Set("Content-Type", "application/x-www-form-urlencoded")
	} else {
		req = httptest.NewRequest(http.MethodGet, target, nil)
	}
	if q.fwd != "" {
		req.Header.Set("Forwarded", "host="+q.fwd)
	}
	return opfix.Do(f.Handlers[q.router], req)
}

func routerName(r opfix.Router) string {
	if r == opfix.Legacy {
		return "Legacy"
	}
	return "Provider"
}

// the issuer the provider must derive for this request
func (c esCase) issuer(q esReq) string {
	switch c.issuerMode {
	case 1:
		return "https://" + q.host
	case 2:
		if q.fwd != "" {
			return "https://" + q.fwd
		}
		return "https://" + q.host
	}
	return c.staticIssuer()
}

func (c esCase) staticIssuer() string {
	if c.static != "" {
		return c.static
	}
	return opfix.Issuer
}

// nearIssuers: issuer identifiers that a normalising comparison (port dropped, default port,
// trailing slash, case of scheme / host, userinfo, path, dot) would take for cur.
func nearIssuers(cur string) []string {
	out := []string{cur + "/", cur + "/x", cur + ".", cur + "?", cur + "#", strings.ToUpper(cur), strings.Replace(cur, "https://", "HTTPS://", 1),
		strings.Replace(cur, "https://", "https://user@", 1), strings.Replace(cur, "https://", "http://", 1), cur + " ", " " + cur, cur + "%2F"}
	u, err := url.Parse(cur)
	if err != nil || u.Host == "" {
		return out
	}
	host := u.Hostname()
	out = append(out, "https://"+strings.ToUpper(host[:1])+host[1:]+strings.TrimPrefix(u.Host, host), "https://"+strings.Replace(host, "s", "\u017f", 1)+strings.TrimPrefix(u.Host, host))
	if u.Port() == "" {
		out = append(out, "https://"+host+":443", "https://"+host+":8443", "https://"+host+":80", "https://"+host+":")
	} else {
		out = append(out, "https://"+host, "https://"+host+":443", "https://"+host+":1"+u.Port(), "https://"+host+":0"+u.Port(), "https://"+host+":9443")
	}
	return out
}

func verifiable(kind string) bool {
	return kind == "valid" || kind == "expired" || kind == "future" || kind == "issued"
}

// claim names a storage may add to the userinfo (and so to the ID token) that collide with a
// registered claim under case / Unicode folding (U+017F long s, U+212A Kelvin sign)
var foldClaims = []string{"\u017fub", "\u017fUB", "Sub", "SUB", "i\u017fs", "i\u017f\u017f", "ISS", "Azp", "AZP", "AUD", "Aud", "EXP", "Exp", "IAT", "Auth_Time", "auth_\u017fime", "nonce2", "\u212aid"}

func tcKey(h hintSpec, cur string) string {
	if h.iss == "" {
		h.iss = cur
	}
	return fmt.Sprintf("%#v", h)
}

// issue lets the provider of the case issue a REAL ID token (implicit flow, response_type
// id_token) for user h.sub and client h.azp at the issuer of request q, signed with h.key, while
// the storage adds the custom claims h.customs (value "u-<user>") to the userinfo.
func issue(f *opfix.Fixture, store *refstore.Store, q esReq, h hintSpec) string {
	cl, ok := store.Clients[h.azp]
	if !ok || len(cl.Redirects) == 0 {
		return ""
	}
	store.Signing, store.ExtraPub, store.FaultMethod = provKey(h.key), nil, ""
	scope := "openid profile"
	for _, n := range strings.Split(h.customs, ",") {
		if n != "" {
			scope += " custom:" + n
			if !slices.Contains(cl.AllowedScopes, "custom:"+n) {
				cl.AllowedScopes = append(cl.AllowedScopes, "custom:"+n)
			}
		}
	}
	resp := f.GetAt(q.router, q.host, q.fwd, "/authorize", url.Values{"client_id": {h.azp}, "redirect_uri": {cl.Redirects[0]}, "response_type": {"id_token"},
		"scope": {scope}, "nonce": {"n-1"}, "state": {"x"}})
	if resp.Location == nil {
		return ""
	}
	id := resp.Location.Query().Get("authRequestID")
	if id == "" || !store.Login(id, h.sub) {
		return ""
	}
	cb := f.GetAt(q.router, q.host, q.fwd, "/authorize/callback", url.Values{"id": {id}})
	return cb.ResponseParams().Get("id_token")
}

func run(w *emit.Writer, c esCase) {
	store := refstore.New(provKey("k1"))
	store.EnableCustomUserinfoClaims() // scope custom:<n> = userinfo claim <n> (for the ID tokens issue() obtains)
	for _, cl := range c.clients {
		store.Clients[cl.ID] = cl
	}
	issuer := op.StaticIssuer(c.staticIssuer())
	switch c.issuerMode {
	case 1:
		issuer = op.IssuerFromHost("")
	case 2:
		issuer = op.IssuerFromForwardedOrHost("")
	}
	var tsfr *refstore.TSFR
	var wrap func(op.Storage) op.Storage
	if c.tsMode != "" {
		tsfr = &refstore.TSFR{Mode: c.tsMode, Fixed: c.tsFixed}
		wrap = func(st op.Storage) op.Storage { tsfr.Storage = st; return tsfr }
	}
	sets := make([]oidc.KeySet, len(c.keysets))
	for i, k := range c.keysets {
		cks := &customKeySet{fixed: k.fixed}
		if k.own {
			cks.own = &op.OpenIDKeySet{Storage: store.AsStorage(true, true, true)}
		}
		sets[i] = cks
	}
	var popts []op.Option
	for _, o := range c.opts {
		switch o.kind {
		case "atkeys":
			popts = append(popts, op.WithAccessTokenKeySet(sets[o.ks]))
		case "hintkeys":
			popts = append(popts, op.WithIDTokenHintKeySet(sets[o.ks]))
		case "atalgs":
			popts = append(popts, op.WithAccessTokenVerifierOpts(op.WithSupportedAccessTokenSigningAlgorithms(o.algs...)))
		case "hintalgs":
			popts = append(popts, op.WithIDTokenHintVerifierOpts(op.WithSupportedIDTokenHintSigningAlgorithms(o.algs...)))
		}
	}
	f, err := opfix.NewWithIssuerStorage(store, opfix.Options{DefaultLogout: c.defaultU, ProviderOpts: popts}, issuer, wrap)
	if err != nil { // op.NewProvider refused the configuration: an observed outcome (ONoProvider)
		f = nil
	}
	defaultU := c.defaultU
	if defaultU == "" {
		defaultU = "/logged-out"
	}
	parse := []string{defaultU}
	var reqTerms, outs []string
	tc := tokCache{}
	var human []map[string]any
	var uris []string
	for ri := range c.reqs {
		rq := &c.reqs[ri]
		cur := c.issuer(*rq)
		// key rotation: what the storage publishes while THIS request is served
		pub := rq.published
		if len(pub) == 0 {
			pub = []string{"k1"}
		}
		publish := func() {
			store.Signing = provKey(pub[0])
			store.ExtraPub = nil
			for _, k := range pub[1:] {
				sk := provKey(k)
				store.ExtraPub = append(store.ExtraPub, &refstore.PublicKey{KID: sk.KID, Alg: sk.Alg, UseStr: "sig", Pub: pubOf(k)})
			}
		}
		publish()
		for _, hp := range rq.hintPtrs() { // hints that are real ID tokens of THIS provider
			if hp.kind == "issued" {
				if _, ok := tc[tcKey(*hp, cur)]; !ok {
					tok := ""
					if f != nil && (hp.iss == "" || hp.iss == cur) {
						tok = issue(f, store, *rq, *hp)
						publish() // issuing signed with the hint's key: back to what THIS request sees published
					}
					if tok == "" { // not issued: the request carries a word instead
						*hp = hintSpec{kind: "keyword", text: "not-issued"}
						continue
					}
					tc[tcKey(*hp, cur)] = tok
				}
			}
		}
		body, query := rq.wire(cur, tc)
		effHint, effClient, effURIs := effective(body, query)
		store.ResetJournal()
		store.FaultMethod = ""
		if rq.fault == 1 {
			store.FaultMethod = "GetClientByClientID"
		}
		if rq.fault == 2 && tsfr == nil { // the journal name carries the arguments: aim at the call a correct provider makes
			eu, ec := "", ""
			accepted := verifiable(effHint.kind) && (effHint.iss == "" || effHint.iss == cur) && c.hintTrusted(effHint, pub)
			if accepted {
				eu, ec = effHint.sub, effHint.azp
			} else if effHint.kind == "none" {
				ec = effClient
			}
			store.FaultMethod = "TerminateSession:" + eu + ":" + ec
		}
		resp := &opfix.Resp{}
		if f != nil {
			resp = send(f, *rq, body, query)
		}
		store.FaultMethod = ""
		term := emit.None
		var termPair string
		for _, j := range store.JournalCopy() {
			if strings.HasPrefix(j, "TerminateSession:") {
				rest := j[len("TerminateSession:"):]
				i := strings.LastIndex(rest, ":")
				termPair = emit.Pair(emit.Str(rest[:i]), emit.Str(rest[i+1:]))
				term = emit.Some(termPair)
			}
		}
		if tsfr != nil {
			for _, call := range tsfr.TakeCalls() {
				termPair = emit.Pair(emit.Str(call.UserID), emit.Str(call.ClientID))
				term = emit.Some(termPair)
			}
		}
		var obs string
		switch {
		case resp.Panic != "":
			obs = "EPanic"
		case resp.Status == http.StatusFound && termPair != "":
			obs = emit.Ctor("ERedirect", emit.Str(resp.Header.Get("Location")), termPair)
		case resp.Status >= 400:
			obs = emit.Ctor("EPage", fmt.Sprintf("%d%%N", resp.Status), emit.Str(resp.OAuthError()), term)
		default:
			obs = "EOther"
		}
		outs = append(outs, obs)
		var toks, form []string
		for _, p := range append(append([]pair{}, body...), query...) { // http.Request.Form: body first
			if p.name == "id_token_hint" {
				toks = append(toks, p.tok)
			} else {
				form = append(form, emit.Pair(emit.Str(p.name), emit.Str(p.val)))
			}
		}
		reqTerms = append(reqTerms, emit.Ctor("Build_ereq", routerName(rq.router), emit.Str(cur), emit.StrList(pub), emit.List(toks), emit.List(form),
			[]string{"EF_None", "EF_GetClient", "EF_Terminate"}[rq.fault]))
		if len(effURIs) == 0 {
			effURIs = []string{""}
		}
		parse = append(parse, effURIs...)
		uris = append(uris, effURIs...)
		human = append(human, map[string]any{"router": rq.router.String(), "host": rq.host, "forwarded": rq.fwd, "issuer": cur,
			"hint_kind": rq.hint.kind, "hint_text": rq.hint.text, "hint_sub": rq.hint.sub, "hint_azp": rq.hint.azp, "hint_iss": rq.hint.iss, "hint_key": rq.hint.keyName(), "published": pub, "client_id": rq.clientID,
			"method": map[bool]string{true: "POST", false: "GET"}[rq.method == "POST"], "raw_query": encodePairs(query), "raw_body": encodePairs(body),
			"post_logout_redirect_uri": rq.uri, "state": rq.state, "fault": rq.fault, "status": resp.Status, "location": resp.Header.Get("Location"),
			"body": resp.Body, "journal": store.JournalCopy()})
	}
	cl := make([]string, len(c.clients))
	for i, x := range c.clients {
		cl[i] = clientTerm(x)
	}
	tsTerm := "TS_Absent"
	switch c.tsMode {
	case "echo":
		tsTerm = "TS_Echo"
	case "error":
		tsTerm = "TS_Err"
	case "fixed": // what http.Redirect makes of the storage's answer on this endpoint
		rec := httptest.NewRecorder()
		http.Redirect(rec, httptest.NewRequest(http.MethodGet, "https://op.example.com/end_session", nil), c.tsFixed, http.StatusFound)
		tsTerm = emit.Ctor("TS_Fixed", emit.Str(rec.Header().Get("Location")))
	}
	in := emit.Ctor("IEnd", emit.Str(defaultU), tsTerm, emit.List(c.optTerms()), emit.List(cl), tables(c.clients, uris, parse), emit.List(reqTerms))
	observed := emit.Ctor("OEnd", emit.List(outs))
	if f == nil {
		observed = "ONoProvider"
	}
	w.Add(emit.Case{Input: in, Observed: observed, Tags: c.tags,
		Human: map[string]any{"new_provider_error": fmt.Sprint(err), "options": c.optsHuman(), "issuer_mode": c.issuerMode, "tsfr": c.tsMode, "tsfr_fixed": c.tsFixed, "default": defaultU, "requests": human, "clients": clientsHuman(c.clients)}})
}

func (c esCase) optsHuman() []string {
	out := []string{}
	for _, o := range c.opts {
		switch o.kind {
		case "atkeys", "hintkeys":
			k := c.keysets[o.ks]
			name := map[string]string{"atkeys": "WithAccessTokenKeySet", "hintkeys": "WithIDTokenHintKeySet"}[o.kind]
			out = append(out, fmt.Sprintf("%s(keyset#%d{storage keys: %v, plus: %v})", name, o.ks, k.own, k.fixed))
		case "atalgs":
			out = append(out, fmt.Sprintf("WithAccessTokenVerifierOpts(algs %v)", o.algs))
		case "hintalgs":
			out = append(out, fmt.Sprintf("WithIDTokenHintVerifierOpts(algs %v)", o.algs))
		}
	}
	return out
}

func clientsHuman(cs []*refstore.Client) []map[string]any {
	var out []map[string]any
	for _, c := range cs {
		out = append(out, map[string]any{"id": c.ID, "post_logout": c.PostLogout, "use_globs": c.UseGlobs, "globs": c.PostLogoutGlobs, "auth_redirect_globs": c.RedirectGlobs})
	}
	return out
}

var hosts = []string{"a.example.com", "b.example.com"}

// Request.Host values, also with a port (the derived issuer carries it)
var portHosts = []string{"a.example.com", "b.example.com", "a.example.com", "b.example.com", "a.example.com:8443", "a.example.com:9443", "b.example.com:443"}

// client ids are compared exactly. nearIDs: what a case-insensitive, white-space-trimming,
// slash-trimming or Unicode-folding comparison would take for id (U+212A KELVIN SIGN folds to k,
// U+017F LONG S to s).
func nearIDs(id string) []string {
	out := []string{strings.ToUpper(id), id + " ", " " + id, id + "\t", id + "\n", "\r\n" + id, id + "/", id + "\x00", id + "%20", "+" + id}
	if f := strings.NewReplacer("k", "\u212a", "s", "\u017f").Replace(id); f != id {
		out = append(out, f, strings.Replace(id, "s", "\u017f", 1), strings.Replace(id, "k", "\u212a", 1))
	}
	return out
}

var keywordIDs = []string{"null", "NULL", "nil", "undefined", "0", "true", "false", "[]", "{}", " "}

// the custom key sets an integrator may hand to the provider
var ksPool = []ksSpec{{own: true, fixed: []string{"fk"}}, {own: true, fixed: []string{"fk"}}, {own: true, fixed: []string{"fk"}}, {own: true, fixed: []string{"k1", "fk"}}, {own: false, fixed: []string{"fk"}}, {own: true},
	{own: true, fixed: []string{"fk", "pk"}}, {own: false}, {own: false, fixed: []string{"k1"}}, {own: true, fixed: []string{"pk"}}, {own: false, fixed: []string{"k2", "pk"}}}

var algPool = [][]string{nil, {"ES256"}, {"RS256", "ES256"}, {"ES256", "PS256"}, {"RS256"}, {"ES256"}, {"RS256", "ES256"}, {"PS256"}, {"EdDSA"}, {"es256"}, {"ES256 "}, {"ES384", "ES256"}}

// genOpts draws the provider OPTION dimension: none (2 in 5), or 1-4 of WithAccessTokenKeySet /
// WithIDTokenHintKeySet / With*VerifierOpts(algorithms) in any order, over 1-2 key set objects
// (the same object may be given to several options).
func genOpts(r drv.Rand, c *esCase) {
	if r.Chance(2, 5) {
		return
	}
	nk := 1 + r.IntN(2)
	for i := 0; i < nk; i++ {
		c.keysets = append(c.keysets, drv.Pick(r, ksPool))
	}
	n := drv.Pick(r, []int{1, 1, 2, 2, 2, 3, 4})
	for i := 0; i < n; i++ {
		o := optSpec{kind: drv.Pick(r, []string{"atkeys", "atkeys", "atkeys", "hintkeys", "hintkeys", "hintkeys", "atalgs", "hintalgs"})}
		switch o.kind {
		case "atkeys", "hintkeys":
			o.ks = r.IntN(nk)
		default:
			o.algs = drv.Pick(r, algPool)
		}
		c.opts = append(c.opts, o)
	}
}

// genReq draws one request for the provider c; tags get its input classes.
func genReq(r drv.Rand, c *esCase, tags map[string]bool) esReq {
	a, b := c.clients[0], c.clients[1]
	q := esReq{router: opfix.Provider, host: drv.Pick(r, portHosts)}
	if r.Bool() {
		q.router = opfix.Legacy
	}
	if r.Chance(1, 3) {
		q.fwd = drv.Pick(r, hosts)
	}
	hk := drv.Pick(r, []string{"none", "none", "valid", "valid", "valid", "valid", "valid", "valid", "expired", "expired", "expired", "future", "badsig", "foreign", "garbage", "tampered", "expbadsig", "unknownkid", "expunknownkid", "expunknownkid", "issued", "issued", "issued"})
	azp := drv.Pick(r, []string{"ks0", "ks0", "ks0", "ks1", "", "ghost"})
	q.hint = hintSpec{kind: hk, sub: drv.Pick(r, []string{"alice", "bob", "user 1", "u:1"})}
	issKind := "current"
	q.published = drv.Pick(r, [][]string{{"k1"}, {"k1"}, {"k1"}, {"k1"}, {"k2"}, {"k1", "k2"}, {"k1", "k2"}, {"k2", "k1"}, {"k1", "r1"}, {"r1", "k2"}, {"r1"}})
	keyKind := "none"
	if hk != "none" {
		q.hint.key = drv.Pick(r, []string{"k1", "k1", "k1", "k1", "k1", "k1", "k1", "k2", "k2", "r1", "fk", "pk"})
		if len(c.keysets) > 0 && r.Chance(1, 4) { // a key one of the custom key sets names
			if fx := drv.Pick(r, c.keysets).fixed; len(fx) > 0 {
				q.hint.key = drv.Pick(r, fx)
			}
		}
		if ownKey(q.hint.key) && !slices.Contains(q.published, q.hint.key) && r.Chance(1, 3) {
			q.hint.key = q.published[0]
		}
		keyKind = "withdrawn"
		if slices.Contains(q.published, q.hint.key) {
			keyKind = "published"
		} else if !ownKey(q.hint.key) {
			keyKind = "foreign"
		}
		q.hint.azp = azp
		if r.Chance(1, 4) { // a hint of another issuer of the same provider (same key)
			q.hint.iss = drv.Pick(r, []string{"https://a.example.com", "https://b.example.com", "https://a.example.com:8443", c.staticIssuer()})
			if r.Bool() { // next to the issuer of this request
				q.hint.iss = drv.Pick(r, nearIssuers(c.issuer(q)))
			}
			issKind = "other"
			if q.hint.iss == c.issuer(q) {
				issKind = "current"
			}
		}
	}
	if hk == "issued" { // a real ID token of this provider for this request's issuer
		if !ownKey(q.hint.key) {
			q.hint.key = "k1"
		}
		if azp != "ks0" && azp != "ks1" {
			azp = "ks0"
		}
		q.hint.azp, q.hint.iss, issKind = azp, "", "current"
		for i, n := 0, r.IntN(3); i < n; i++ {
			q.hint.customs += drv.Pick(r, foldClaims) + ","
		}
		keyKind = "withdrawn"
		if slices.Contains(q.published, q.hint.key) {
			keyKind = "published"
		}
	}
	if hk == "garbage" && r.Bool() {
		q.hint.kind, q.hint.text = "keyword", drv.Pick(r, []string{"null", "undefined", "nil", "0", "false", "{}", "[]", " ", "..", "e30.e30.", "eyJhbGciOiJub25lIn0.e30."})
		hk = "keyword"
	}
	reuse := "fresh"
	if n := len(c.reqs); n > 0 && r.Chance(1, 4) { // the very token of an earlier request again, or its payload swapped under its signature
		if prev := c.reqs[r.IntN(n)]; prev.hint.kind != "none" && prev.hint.kind != "keyword" {
			q.hint, hk, azp, reuse = prev.hint, prev.hint.kind, prev.hint.azp, "same"
			if q.hint.iss == "" { // pinned to the issuer it was signed for
				q.hint.iss = c.issuer(prev)
			}
			if hk == "valid" && r.Chance(1, 3) {
				q.hint.kind, hk, reuse = "tampered", "tampered", "swapped"
			}
			issKind, keyKind = "current", "withdrawn"
			if q.hint.iss != c.issuer(q) {
				issKind = "other"
			}
			if slices.Contains(q.published, q.hint.keyName()) {
				keyKind = "published"
			} else if !ownKey(q.hint.keyName()) {
				keyKind = "foreign"
			}
		}
	}
	cidKind := "absent"
	switch r.IntN(6) {
	case 0, 1:
		q.clientID, cidKind = azp, "same"
	case 2:
		q.clientID, cidKind = drv.Pick(r, []string{"ks0", "ks1", "ghost"}), "any"
	}
	if hk == "none" && r.Chance(2, 3) {
		q.clientID, cidKind = drv.Pick(r, []string{"ks0", "ks0", "ks1", "ghost"}), "named"
	}
	if r.Chance(1, 8) { // must be compared exactly: neighbours of the hint's azp / of a registered id, keyword-like values
		base := "ks0"
		if hk != "none" && azp != "" {
			base = azp
		}
		q.clientID, cidKind = drv.Pick(r, nearIDs(base)), "nearmiss"
		if r.Chance(1, 4) {
			q.clientID, cidKind = drv.Pick(r, keywordIDs), "keyword"
		}
	}
	owner := a
	if (hk == "none" && q.clientID == "ks1") || (hk != "none" && azp == "ks1") {
		owner = b
	}
	uriKind := "none"
	switch k := r.IntN(10); {
	case k < 2:
	case k < 5 && len(owner.PostLogout) > 0:
		q.uri, uriKind = drv.Pick(r, owner.PostLogout), "exact"
	case k < 6:
		other := a
		if owner == a {
			other = b
		}
		if len(other.PostLogout) > 0 {
			q.uri, uriKind = drv.Pick(r, other.PostLogout), "otherclient"
		}
	case k < 8 && owner.UseGlobs:
		q.uri, uriKind = drv.Pick(r, plShots), "globshot"
		if len(owner.RedirectGlobs) > 0 && r.Bool() { // an instance of a glob registered for the authorization redirect only (or for both)
			if u, ok := patternInstance(r, drv.Pick(r, owner.RedirectGlobs)); ok && strings.Contains(u, ":") {
				q.uri, uriKind = u, "authglobshot"
			}
		}
	default:
		base := "https://app.example.com/bye"
		if len(owner.PostLogout) > 0 {
			base = drv.Pick(r, owner.PostLogout)
			if last := owner.PostLogout[len(owner.PostLogout)-1]; r.Bool() { // the loopback registration, if there is one
				base = last
			}
		}
		q.uri, uriKind = mutate(r, base)
	}
	var stKind string
	q.state, stKind = genState(r)
	if n := len(c.reqs); n > 0 && r.Chance(1, 4) { // the target of an earlier logout again (often the default URI), with a state of its own
		q.uri, uriKind = c.reqs[r.IntN(n)].uri, "sameasearlier"
		for q.state == "" {
			q.state, stKind = genState(r)
		}
	}
	if r.Chance(1, 12) {
		q.fault = 1 + r.IntN(2)
		if q.fault == 2 && c.tsMode != "" { // TerminateSession is not called then
			q.fault = 1
		}
	}
	// how the request travels, and what else it carries
	place := "get"
	if r.Chance(1, 3) {
		q.method, place = "POST", "post-body"
		if r.Chance(1, 4) {
			q.primQuery, place = true, "post-query"
		}
	}
	extraKind := "none"
	if r.Chance(2, 5) {
		ne := drv.Pick(r, []int{1, 1, 2, 3})
		for i := 0; i < ne; i++ {
			var k string
			e := genExtra(r, c, &q, &k)
			q.extras = append(q.extras, e)
			if extraKind == "none" || extraKind == k {
				extraKind = k
			} else {
				extraKind = "several"
			}
		}
	}
	tags["place="+place], tags["extra="+extraKind] = true, true
	for _, t := range []string{"hinttoken=" + reuse, "hintkey=" + keyKind, "router=" + q.router.String(), "hint=" + hk, "hintiss=" + issKind, "client_id=" + cidKind, "uri=" + uriKind,
		"state=" + stKind, fmt.Sprintf("fault=%d", q.fault), fmt.Sprintf("globs=%v", owner.UseGlobs), fmt.Sprintf("forwarded=%v", q.fwd != "")} {
		tags[t] = true
	}
	return q
}

var otherUsers = []string{"mallory", "bob", "alice", "user 1", "u:1", "", "alice@example.com", "null"}

// names the endpoint does not know. No case variants of the known names: the schema decoder
// matches names case-insensitively and reads http.Request.Form in map order, so the answer to
// client_id=a&CLIENT_ID=b is not determined.
var unknownNames = []string{"foo", "user_id", "sub", "userID", "login_hint", "id_token", "redirect_uri", "client", "session_state", "sid", "post_logout_redirect_uris", "state2", "x-state", "", "id_token_hint2"}

// genExtra draws one further parameter for q: logout_hint / ui_locales / an unknown name, or a
// known name once more with a different value, before or after the ordinary ones, in body or query.
func genExtra(r drv.Rand, c *esCase, q *esReq, kind *string) extra {
	e := extra{first: r.Bool(), query: r.Chance(1, 3)}
	switch r.IntN(10) {
	case 0, 1, 2:
		*kind, e.name, e.val = "logout_hint", "logout_hint", drv.Pick(r, otherUsers)
	case 3:
		*kind, e.name, e.val = "ui_locales", "ui_locales", drv.Pick(r, []string{"de", "fr-CA fr en", "", "mallory"})
	case 4:
		*kind, e.name, e.val = "unknown", drv.Pick(r, unknownNames), drv.Pick(r, append([]string{"ks0", "ks1", "https://evil.example/bye", "xyz"}, otherUsers...))
	case 5:
		*kind, e.name, e.val = "dup_client_id", "client_id", drv.Pick(r, []string{"ks0", "ks1", "ghost", "", "KS0", "mallory"})
	case 6:
		*kind, e.name = "dup_uri", "post_logout_redirect_uri"
		e.val = drv.Pick(r, []string{"https://evil.example/bye", "", "https://app.example.com/bye", "https://other.example.org/logout/done"})
		if cl := drv.Pick(r, c.clients); len(cl.PostLogout) > 0 && r.Bool() {
			e.val = drv.Pick(r, cl.PostLogout)
		}
	case 7:
		*kind, e.name, e.val = "dup_state", "state", drv.Pick(r, []string{"other", "", "xyz", "s 2", "%zz"})
	default:
		*kind, e.name = "dup_hint", "id_token_hint"
		switch r.IntN(5) {
		case 0:
			e.val = drv.Pick(r, []string{"", "null", "aaa.bbb.ccc"})
		case 1:
			if n := len(c.reqs); n > 0 { // the token of an earlier request
				if prev := c.reqs[r.IntN(n)]; prev.hint.kind != "none" && prev.hint.kind != "keyword" {
					h := prev.hint
					if h.iss == "" {
						h.iss = c.issuer(prev)
					}
					e.hint = &h
					break
				}
			}
			fallthrough
		default:
			h := hintSpec{kind: drv.Pick(r, []string{"valid", "valid", "valid", "expired", "badsig", "tampered", "foreign"}), sub: drv.Pick(r, otherUsers[:5]),
				azp: drv.Pick(r, []string{"ks0", "ks0", "ks1", "", "ghost"}), key: drv.Pick(r, []string{"k1", "k1", "k1", "k2", "fk"})}
			e.hint = &h
		}
	}
	return e
}

func gen(r drv.Rand, w *emit.Writer) {
	c := esCase{issuerMode: drv.Pick(r, []int{0, 0, 1, 1, 2, 2})}
	c.static = drv.Pick(r, []string{"", "", "https://op.example.com:8443", "https://op.example.com:443", "https://op.example.com/tenant"})
	c.defaultU = drv.Pick(r, []string{"", "", "", "https://op.example.com/bye?x=1", "https://op.example.com/done#top", "https://op.example.com/%zz", "https://op.example.com/bye?state=own&z=1", "/out?a=1#f"})
	c.clients = []*refstore.Client{genClient(r, "ks0"), genClient(r, "ks1")}
	genOpts(r, &c)
	// the storage may implement the optional CanTerminateSessionFromRequest
	switch r.IntN(8) {
	case 0, 1:
		c.tsMode = "echo"
	case 2:
		c.tsMode, c.tsFixed = "fixed", drv.Pick(r, []string{"", "https://consent.example/logout?x=1", "/ui/bye"})
	case 3:
		c.tsMode = "error"
	}
	n := drv.Pick(r, []int{1, 2, 2, 3, 4})
	tags := map[string]bool{}
	for i := 0; i < n; i++ {
		c.reqs = append(c.reqs, genReq(r, &c, tags))
	}
	c.tags = []string{fmt.Sprintf("issuer_mode=%d", c.issuerMode), fmt.Sprintf("requests=%d", n), "tsfr=" + c.tsMode, c.optTag()}
	var ts []string
	for t := range tags {
		ts = append(ts, t)
	}
	sort.Strings(ts)
	c.tags = append(c.tags, ts...)
	run(w, c)
}

func directed(w *emit.Writer) {
	web := &refstore.Client{ID: "ks0", PostLogout: []string{"https://app.example.com/bye", "https://app.example.com/bye?z=9&state=old&a=1"}, UseGlobs: true,
		PostLogoutGlobs: []string{"https://app.example.com/out/*"}}
	other := &refstore.Client{ID: "ks1", PostLogout: []string{"https://other.example.org/logout/done"}}
	cl := []*refstore.Client{web, other}
	for _, router := range []opfix.Router{opfix.Provider, opfix.Legacy} {
		for _, hk := range []string{"none", "valid", "expired", "badsig", "foreign", "expbadsig", "tampered"} {
			for _, u := range []string{"", "https://app.example.com/bye", "https://app.example.com/out/x", "https://other.example.org/logout/done",
				"https://app.example.com/bye?z=9&state=old&a=1", "https://evil.example/bye"} {
				for _, st := range []string{"", "a b&c=d+e"} {
					h := hintSpec{kind: hk, sub: "alice"}
					cid := "ks0"
					if hk != "none" {
						h.azp, cid = "ks0", ""
					}
					run(w, esCase{clients: cl, reqs: []esReq{{router: router, host: "op.example.com", hint: h, clientID: cid, uri: u, state: st}},
						tags: []string{"directed=grid", "router=" + router.String(), "hint=" + hk}})
				}
			}
		}
		// contradicting client_id, hint of another client asking for this client's URI
		run(w, esCase{clients: cl, reqs: []esReq{{router: router, host: "op.example.com", hint: hintSpec{kind: "valid", sub: "alice", azp: "ks1"}, clientID: "ks0", uri: "https://app.example.com/bye"}},
			tags: []string{"directed=contradict", "router=" + router.String(), "hint=valid"}})
		run(w, esCase{clients: cl, reqs: []esReq{{router: router, host: "op.example.com", hint: hintSpec{kind: "valid", sub: "alice", azp: "ks1"}, uri: "https://app.example.com/bye"}},
			tags: []string{"directed=otherclient", "router=" + router.String(), "hint=valid"}})
		// dynamic issuer: one provider, two hosts; hints of host A at host B and back
		for _, mode := range []int{1, 2} {
			hA := hintSpec{kind: "valid", sub: "alice", azp: "ks0", iss: "https://a.example.com"}
			hB := hintSpec{kind: "valid", sub: "bob", azp: "ks0", iss: "https://b.example.com"}
			fw := ""
			if mode == 2 {
				fw = "b.example.com"
			}
			run(w, esCase{issuerMode: mode, clients: cl, reqs: []esReq{
				{router: router, host: "a.example.com", hint: hintSpec{kind: "none"}, clientID: "ks0"},
				{router: router, host: "b.example.com", hint: hA, uri: "https://app.example.com/bye"},
				{router: router, host: "b.example.com", hint: hB, uri: "https://app.example.com/bye", state: "s"},
				{router: router, host: "a.example.com", fwd: fw, hint: hB},
				{router: router, host: "a.example.com", hint: hA}},
				tags: []string{"directed=hosts", "router=" + router.String(), fmt.Sprintf("issuer_mode=%d", mode)}})
		}
		// signing-key rotation on one provider: k1 used, withdrawn, presented again, republished
		h1 := hintSpec{kind: "valid", sub: "alice", azp: "ks0", key: "k1"}
		h2 := hintSpec{kind: "valid", sub: "alice", azp: "ks0", key: "k2"}
		run(w, esCase{clients: cl, reqs: []esReq{
			{router: router, host: "op.example.com", hint: h1, uri: "https://app.example.com/bye", published: []string{"k1"}},
			{router: router, host: "op.example.com", hint: h2, uri: "https://app.example.com/bye", published: []string{"k1"}},
			{router: router, host: "op.example.com", hint: h1, uri: "https://app.example.com/bye", published: []string{"k1", "k2"}},
			{router: router, host: "op.example.com", hint: h1, uri: "https://app.example.com/bye", published: []string{"k2"}},
			{router: router, host: "op.example.com", hint: h2, uri: "https://app.example.com/bye", state: "s", published: []string{"k2"}},
			{router: router, host: "op.example.com", hint: h1, published: []string{"k2", "k1"}}},
			tags: []string{"directed=rotation", "router=" + router.String()}})
		// the provider OPTION dimension: which key set judges the hint. partner = the storage's keys + fk,
		// only = fk alone, pinned = k1 whatever the storage publishes
		partner, only, pinned, wider := ksSpec{own: true, fixed: []string{"fk"}}, ksSpec{fixed: []string{"fk"}}, ksSpec{fixed: []string{"k1"}}, ksSpec{own: true, fixed: []string{"fk", "pk"}}
		kss := []ksSpec{partner, only, pinned, wider}
		at, hi := func(i int) optSpec { return optSpec{kind: "atkeys", ks: i} }, func(i int) optSpec { return optSpec{kind: "hintkeys", ks: i} }
		for _, opts := range [][]optSpec{nil, {at(0)}, {hi(0)}, {at(0), hi(0)}, {hi(0), at(0)}, {at(0), hi(1)}, {hi(1), at(0)}, {at(0), at(3)}, {hi(0), hi(1)}, {hi(1), hi(0)},
			{at(0), hi(0), at(3)}, {at(1)}, {hi(1)}, {at(2)}, {hi(2)}, {at(3), hi(2)},
			{{kind: "atalgs", algs: []string{"RS256"}}}, {{kind: "hintalgs", algs: []string{"RS256"}}}, {{kind: "atalgs", algs: []string{"RS256"}}, at(0)},
			{{kind: "hintalgs", algs: []string{"ES256"}}, {kind: "atalgs", algs: []string{"PS256"}}}, {{kind: "hintalgs", algs: []string{"RS256"}}, {kind: "hintalgs"}}} {
			hint := func(key, kind, sub string) hintSpec { return hintSpec{kind: kind, sub: sub, azp: "ks0", key: key} }
			c := esCase{clients: cl, keysets: kss, opts: opts, reqs: []esReq{
				{router: router, host: "op.example.com", hint: hint("k1", "valid", "alice"), uri: "https://app.example.com/bye"},
				{router: router, host: "op.example.com", hint: hint("fk", "valid", "mallory"), uri: "https://app.example.com/bye"},
				{router: router, host: "op.example.com", hint: hint("pk", "valid", "mallory"), uri: "https://app.example.com/bye", state: "s"},
				{router: router, host: "op.example.com", hint: hint("fk", "expired", "bob")},
				{router: router, host: "op.example.com", hint: hint("k1", "valid", "alice"), uri: "https://app.example.com/bye", published: []string{"k2"}},
				{router: router, host: "op.example.com", hint: hint("r1", "valid", "alice"), uri: "https://app.example.com/bye", published: []string{"k1", "r1"}},
				{router: router, host: "op.example.com", hint: hint("fk", "badsig", "mallory"), uri: "https://app.example.com/bye"}}}
			c.tags = []string{"directed=options", c.optTag(), "router=" + router.String()}
			run(w, c)
		}
		// client_id next to the proven / a registered id: never the same client
		var near []esReq
		for _, v := range append(nearIDs("ks0"), "ks1", "null") {
			near = append(near, esReq{router: router, host: "op.example.com", hint: h1, clientID: v, uri: "https://app.example.com/bye"},
				esReq{router: router, host: "op.example.com", hint: hintSpec{kind: "none"}, clientID: v, uri: "https://app.example.com/bye", state: "s"})
		}
		run(w, esCase{clients: cl, reqs: near, tags: []string{"directed=nearid", "router=" + router.String()}})
		// the client's two glob lists differ: disjoint, overlapping, one of them empty, the same; URIs
		// matching only the post-logout list, only the authorization list, both, neither
		for _, gl := range [][2][]string{
			{{"https://app.example.com/out/*"}, {"https://app.example.com/cb/*", "https://evil.example/*"}},
			{{"https://app.example.com/out/*", "https://app.example.com/both/*"}, {"https://app.example.com/both/*", "https://app.example.com/cb/*"}},
			{{"https://app.example.com/out/*"}, nil}, {nil, {"https://app.example.com/cb/*", "https://app.example.com/out/*"}},
			{{"https://app.example.com/out/*"}, {"https://app.example.com/out/*"}}, {{"https://app.example.com/out/*"}, {"https://app.example.com/**", "https://["}},
			{{"https://app.example.com/out/*"}, {"*"}}} {
			gc := &refstore.Client{ID: "ks0", PostLogout: []string{"https://app.example.com/bye"}, UseGlobs: true, PostLogoutGlobs: gl[0], RedirectGlobs: gl[1]}
			var seq []esReq
			for _, u := range []string{"https://app.example.com/out/x", "https://app.example.com/cb/x", "https://evil.example/bye", "https://app.example.com/both/x", "https://app.example.com/none/x", "https://app.example.com/bye"} {
				seq = append(seq, esReq{router: router, host: "op.example.com", hint: hintSpec{kind: "none"}, clientID: "ks0", uri: u},
					esReq{router: router, host: "op.example.com", hint: h1, uri: u, state: "s"})
			}
			run(w, esCase{clients: []*refstore.Client{gc, other}, reqs: seq, tags: []string{"directed=globlists", "router=" + router.String()}})
		}
		// hints that are REAL ID tokens of this provider, issued while the storage adds userinfo claims
		// whose names fold to registered claim names; and issuers with a port and their neighbours
		ic := &refstore.Client{ID: "ks0", Secret: "s", App: op.ApplicationTypeWeb, Auth: oidc.AuthMethodBasic, Redirects: []string{"https://app.example.com/cb"},
			RespTypes: []oidc.ResponseType{oidc.ResponseTypeCode, oidc.ResponseTypeIDTokenOnly}, PostLogout: []string{"https://app.example.com/bye"}}
		for _, static := range []string{"", "https://op.example.com:8443"} {
			var seq []esReq
			for _, cu := range []string{"", "\u017fub,", "SUB,Azp,", "i\u017fs,AUD,", "EXP,IAT,Auth_Time,", "\u017fub,i\u017f\u017f,\u212aid,"} {
				seq = append(seq, esReq{router: router, host: "op.example.com", hint: hintSpec{kind: "issued", sub: "alice", azp: "ks0", key: "k1", customs: cu}, uri: "https://app.example.com/bye", state: "s"})
			}
			cur := static
			if cur == "" {
				cur = opfix.Issuer
			}
			for _, iss := range nearIssuers(cur) {
				seq = append(seq, esReq{router: router, host: "op.example.com", hint: hintSpec{kind: "valid", sub: "alice", azp: "ks0", key: "k1", iss: iss}, uri: "https://app.example.com/bye"})
			}
			for _, k := range []string{"expunknownkid", "unknownkid", "expbadsig"} {
				seq = append(seq, esReq{router: router, host: "op.example.com", hint: hintSpec{kind: k, sub: "alice", azp: "ks0", key: "k1"}, uri: "https://app.example.com/bye"},
					esReq{router: router, host: "op.example.com", hint: hintSpec{kind: k, sub: "alice", azp: "ks0", key: "r1"}, published: []string{"k1", "r1"}})
			}
			run(w, esCase{static: static, clients: []*refstore.Client{ic, other}, reqs: seq, tags: []string{"directed=issued+nearissuer", "router=" + router.String()}})
		}
		for _, mode := range []int{1, 2} { // dynamic issuer with a port in the Host
			var seq []esReq
			for _, host := range []string{"a.example.com:8443", "a.example.com"} {
				seq = append(seq, esReq{router: router, host: host, hint: hintSpec{kind: "issued", sub: "bob", azp: "ks0", key: "k1", customs: "\u017fub,"}, uri: "https://app.example.com/bye"})
				for _, iss := range nearIssuers("https://" + host) {
					seq = append(seq, esReq{router: router, host: host, hint: hintSpec{kind: "valid", sub: "alice", azp: "ks0", key: "k1", iss: iss}, uri: "https://app.example.com/bye", state: "s"})
				}
			}
			run(w, esCase{issuerMode: mode, clients: []*refstore.Client{ic, other}, reqs: seq, tags: []string{"directed=issued+nearissuer", "router=" + router.String(), fmt.Sprintf("issuer_mode=%d", mode)}})
		}
		// application type x registered loopback post-logout URIs x loopback near-misses
		for _, app := range []op.ApplicationType{op.ApplicationTypeNative, op.ApplicationTypeWeb, op.ApplicationTypeUserAgent} {
			for _, globs := range []bool{false, true} {
				lc := &refstore.Client{ID: "ks0", App: app, PostLogout: []string{"http://127.0.0.1:3000/bye", "http://localhost/done?x=1"}, UseGlobs: globs}
				var seq []esReq
				for _, u := range []string{"http://127.0.0.1:3000/bye", "http://127.0.0.1:3001/bye", "http://127.0.0.1/bye", "http://localhost:3000/bye", "http://[::1]:3000/bye", "https://127.0.0.1:3000/bye",
					"http://user@127.0.0.1:3000/bye", "http://127.0.0.1:3000/bye#f", "http://localhost:8080/done?x=1", "http://127.0.0.1/done?x=1", "http://localhost/done?x=2", "http://evil.example:3000/bye"} {
					seq = append(seq, esReq{router: router, host: "op.example.com", hint: hintSpec{kind: "none"}, clientID: "ks0", uri: u},
						esReq{router: router, host: "op.example.com", hint: h1, uri: u, state: "s"})
				}
				run(w, esCase{clients: []*refstore.Client{lc, other}, reqs: seq, tags: []string{"directed=loopback", fmt.Sprintf("app=%d", app), "router=" + router.String()}})
			}
		}
		// EXTRA parameters next to every hint kind, by GET, in a POST body, and split over body and
		// query: logout_hint / unknown names naming another user, known names twice in both orders
		for _, pl := range []string{"get", "post-body", "post-query", "post-split"} {
			for _, hk := range []string{"none", "valid", "expired", "badsig"} {
				base := esReq{router: router, host: "op.example.com", hint: hintSpec{kind: hk, sub: "alice", azp: "ks0"}, uri: "https://app.example.com/bye"}
				if hk == "none" {
					base.hint, base.clientID = hintSpec{kind: "none"}, "ks0"
				}
				split := false
				switch pl {
				case "post-body":
					base.method = "POST"
				case "post-query":
					base.method, base.primQuery = "POST", true
				case "post-split":
					base.method, split = "POST", true
				}
				u2 := hintSpec{kind: "valid", sub: "mallory", azp: "ks1"}
				var seq []esReq
				for _, ex := range [][]extra{
					{{name: "logout_hint", val: "mallory"}}, {{name: "logout_hint", val: "mallory", first: true}}, {{name: "logout_hint", val: "alice"}}, {{name: "logout_hint", val: ""}},
					{{name: "ui_locales", val: "de"}, {name: "user_id", val: "mallory"}, {name: "sub", val: "mallory", first: true}},
					{{name: "client_id", val: "ks1"}}, {{name: "client_id", val: "ks1", first: true}}, {{name: "client_id", val: "", first: true}},
					{{name: "id_token_hint", hint: &u2}}, {{name: "id_token_hint", hint: &u2, first: true}}, {{name: "id_token_hint", val: ""}}, {{name: "id_token_hint", val: "", first: true}},
					{{name: "state", val: "first", first: true}, {name: "state", val: "last"}}, {{name: "post_logout_redirect_uri", val: "https://evil.example/bye", first: true}},
					{{name: "post_logout_redirect_uri", val: "https://evil.example/bye"}}} {
					q := base
					for _, e := range ex {
						e.query = split
						q.extras = append(q.extras, e)
					}
					seq = append(seq, q)
				}
				run(w, esCase{clients: cl, reqs: seq, tags: []string{"directed=extras", "place=" + pl, "hint=" + hk, "router=" + router.String()}})
			}
		}
		// 2-3 logouts on ONE provider that end on the same target - the default URI in its variants,
		// the same registered URI - each with its own state; also across the two routers
		reg := &refstore.Client{ID: "ks0", PostLogout: []string{"https://app.example.com/bye", "https://op.example.com/bye?x=1", "/logged-out"}}
		for _, def := range []string{"", "https://op.example.com/bye?x=1", "https://op.example.com/done#top", "https://op.example.com/bye?state=own&z=1", "/out?a=1#f", "https://op.example.com/%zz"} {
			otherRouter := opfix.Provider
			if router == opfix.Provider {
				otherRouter = opfix.Legacy
			}
			for i, tpl := range []esReq{
				{router: router, host: "op.example.com", hint: hintSpec{kind: "none"}},
				{router: router, host: "op.example.com", hint: h1},
				{router: router, host: "op.example.com", hint: hintSpec{kind: "none"}, clientID: "ks0"},
				{router: router, host: "op.example.com", hint: h1, uri: "https://app.example.com/bye"},
				{router: router, host: "op.example.com", hint: h1, uri: "https://op.example.com/bye?x=1"},
				{router: router, host: "op.example.com", hint: hintSpec{kind: "none"}, clientID: "ks0", uri: "/logged-out"}} {
				a, b, c3, d := tpl, tpl, tpl, tpl
				a.state, b.state, c3.state, d.state = "s1", "s2", "", "s 3&x"
				if i%2 == 1 {
					b.router = otherRouter
					b.method = "POST"
				}
				run(w, esCase{defaultU: def, clients: []*refstore.Client{reg, other}, reqs: []esReq{a, b, c3, d},
					tags: []string{"directed=sametarget", "router=" + router.String()}})
			}
		}
		// one router instance, a full request and then requests that OMIT one parameter each (a
		// recycled request struct would carry the earlier value over)
		full := esReq{router: router, host: "op.example.com", hint: h1, clientID: "ks0", uri: "https://app.example.com/bye", state: "first"}
		noHint, noCid, noURI, noState := full, full, full, full
		noHint.hint, noHint.clientID = hintSpec{kind: "none"}, ""
		noCid.clientID = ""
		noURI.uri = ""
		noState.state = ""
		other1 := esReq{router: router, host: "op.example.com", hint: hintSpec{kind: "none"}, clientID: "ks1", uri: "https://other.example.org/logout/done", state: "second"}
		bare := esReq{router: router, host: "op.example.com", hint: hintSpec{kind: "none"}}
		for _, seq := range [][]esReq{{full, noHint, full, noCid}, {full, noURI, full, noState}, {full, bare, other1, bare}, {other1, noState, noURI, bare}} {
			run(w, esCase{clients: cl, reqs: seq, tags: []string{"directed=omit", "router=" + router.String()}})
		}
		// size: states beyond 1 KiB and 4 KiB come back whole
		for _, n := range []int{1100, 4200} {
			run(w, esCase{clients: cl, reqs: []esReq{
				{router: router, host: "op.example.com", hint: h1, uri: "https://app.example.com/bye", state: strings.Repeat("s", n-3) + "e d"},
				{router: router, host: "op.example.com", hint: hintSpec{kind: "none"}, state: strings.Repeat("\xc3\xbc", n/2)}},
				tags: []string{"directed=longstate", "router=" + router.String()}})
		}
		// storages with the optional CanTerminateSessionFromRequest; requests that identify no client
		for _, ts := range [][2]string{{"echo", ""}, {"fixed", ""}, {"fixed", "https://consent.example/logout"}, {"error", ""}} {
			run(w, esCase{clients: cl, tsMode: ts[0], tsFixed: ts[1], reqs: []esReq{
				{router: router, host: "op.example.com", hint: hintSpec{kind: "none"}, uri: "https://evil.example/bye"},
				{router: router, host: "op.example.com", hint: hintSpec{kind: "none"}, uri: "https://evil.example/bye", state: "s t"},
				{router: router, host: "op.example.com", hint: hintSpec{kind: "none"}, clientID: "ks0", uri: "https://app.example.com/bye", state: "s"},
				{router: router, host: "op.example.com", hint: h1, uri: "https://evil.example/bye"},
				{router: router, host: "op.example.com", hint: h1, uri: "https://app.example.com/out/x"}},
				tags: []string{"directed=tsfr", "tsfr=" + ts[0], "router=" + router.String()}})
		}
	}
}

func main() {
	cfg := drv.Parse()
	r := drv.NewRand(cfg.Seed)
	shard := 0 // quick: spread over 16 coqc processes
	if !cfg.Quick {
		shard = 250 // bounds coqc memory
	}
	w := emit.NewWriter(cfg.Out, "C18_spec", shard, cfg.Only)
	directed(w)
	n := cfg.Count(700, 10000)
	for i := 0; i < n; i++ {
		gen(r, w)
	}
	err := w.Close(emit.Meta{Property: "C18", Tier: cfg.Tier, Seed: cfg.Seed,
		Rule: "(requests travel by GET, in a POST body or split over body and query and 2 in 5 carry EXTRA parameters: logout_hint, ui_locales, unknown names, known names repeated with another value before / after; 1 in 4 later requests asks for the target of an earlier one with a state of its own; a configuration NewProvider refuses is the outcome ONoProvider) 1-4 /end_session requests in sequence on ONE provider instance built with 0-4 verification OPTIONS in any order (WithAccessTokenKeySet / WithIDTokenHintKeySet over 1-2 custom key-set objects that trust the storage's keys and / or foreign or pinned keys; With*VerifierOpts(signing algorithms)), whose storage publishes a per-request subset of three signing keys (k1, k2 EC, r1 RSA: rotation / withdrawal between requests; hints are signed with those or with the foreign keys fk, pk; 1/4 of the later requests present the very token of an earlier request again or its payload swapped under its signature) and may implement the optional CanTerminateSessionFromRequest (echo / own URI incl. empty / error) (static issuer, op.IssuerFromHost or op.IssuerFromForwardedOrHost; Host / Forwarded header vary per request), each on a random router: hint kind (absent, valid, expired, iat in the future, wrong key, foreign issuer, not a JWT, payload swapped, expired+wrong key; really signed ES256; 1/4 signed for another issuer of the same provider) x azp (client, other client, none, unknown) x client_id (absent, same, contradicting, unknown) x post_logout_redirect_uri (absent, registered, registered for the other client, glob instance, mutated: suffix/prefix/userinfo/host case/foreign/unparseable/scheme) x state (absent, plain, special characters, random bytes) x two random registrations (0-3 URIs, optional path.Match globs incl. malformed) x default logout URI x storage fault; plus a directed grid and directed two-host sequences. non-trivial = some request not rejected because of its hint; distinct = distinct Coq input terms",
	})
	if err != nil {
		fmt.Fprintln(os.Stderr, err)
		os.Exit(2)
	}
}
