// Driver for C18 (logout redirects only to post-logout URIs registered for the proven
// client). One end-session request per case over HTTP (recorder) against one of the two
// routers of the shared fixture; id_token_hints are really signed. path.Match and
// url.Parse are recorded per case as oracle tables.
package main

import (
	"crypto/ecdsa"
	"encoding/json"
	"fmt"
	"net/http"
	"net/http/httptest"
	"net/url"
	"os"
	"path"
	"slices"
	"sort"
	"strings"
	"time"

	jose "github.com/go-jose/go-jose/v4"

	"verifharness/drv"
	"verifharness/emit"
	"verifharness/opfix"
	"verifharness/refstore"

	"github.com/zitadel/oidc/v3/pkg/oidc"
	"github.com/zitadel/oidc/v3/pkg/op"
)

// ---------------------------------------------------------------- oracles

func purl(u string) string {
	pu, err := url.Parse(u)
	if err != nil {
		return emit.None
	}
	c := *pu
	c.RawQuery, c.ForceQuery, c.Fragment, c.RawFragment = "", false, "", ""
	pre := c.String()
	q := pu.Query()
	keys := make([]string, 0, len(q))
	for k := range q {
		keys = append(keys, k)
	}
	sort.Strings(keys)
	var le, gt []string
	for _, k := range keys {
		for _, v := range q[k] {
			p := emit.Pair(emit.Str(k), emit.Str(v))
			if k <= "state" {
				le = append(le, p)
			} else {
				gt = append(gt, p)
			}
		}
	}
	frag := emit.None
	if pu.Fragment != "" {
		frag = emit.Some(emit.Str(pu.EscapedFragment()))
	}
	return emit.Some(emit.Ctor("Build_purl", emit.Str(pre), emit.List(le), emit.List(gt), frag))
}

func tables(clients []*refstore.Client, uris []string, parse []string) string {
	var pm []string
	seen := map[string]bool{}
	for _, c := range clients {
		if !c.UseGlobs {
			continue
		}
		for _, g := range c.PostLogoutGlobs {
			for _, uri := range uris {
				if seen[g+"\x00"+uri] {
					continue
				}
				seen[g+"\x00"+uri] = true
				m, err := path.Match(g, uri)
				r := "PNoMatch"
				if err != nil {
					r = "PBad"
				} else if m {
					r = "PMatch"
				}
				pm = append(pm, "("+emit.Str(g)+", "+emit.Str(uri)+", "+r+")")
			}
		}
	}
	var up []string
	seenU := map[string]bool{}
	for _, u := range parse {
		if !seenU[u] {
			seenU[u] = true
			up = append(up, emit.Pair(emit.Str(u), purl(u)))
		}
	}
	return emit.Ctor("Build_tables", emit.List(pm), emit.List(up))
}

func clientTerm(c *refstore.Client) string {
	globs := emit.None
	if c.UseGlobs {
		globs = emit.Some(emit.StrList(c.PostLogoutGlobs))
	}
	return emit.Ctor("Build_lclient", emit.Str(c.ID), emit.StrList(c.PostLogout), globs)
}

// ---------------------------------------------------------------- generators

var postPool = []string{"https://app.example.com/bye", "https://app.example.com/bye?x=1", "https://app.example.com/out#top",
	"myapp://bye", "http://localhost:3000/bye", "https://app.example.com/bye?z=9&state=old&a=1", "https://app.example.com/a%20b",
	"https://other.example.org/logout/done", "https://[2001:db8::1]/bye", "https://rp.example/bye?src=op"}
var plGlobPool = []string{"https://app.example.com/*", "https://*.example.com/bye", "https://app.example.com/by?", "myapp://*",
	"https://app.example.com/[a-c]ye", "https://[", "https://app.example.com/[a-", "https://app.example.com/bye\\", "*", "https://app.example.com/*/*"}
var plShots = []string{"https://app.example.com/anything", "https://sub.example.com/bye", "https://app.example.com/byX", "myapp://x",
	"https://app.example.com/aye", "https://app.example.com/a/b", "https://evil.example/bye", "https://app.example.com/x/y/z", "urn:evil"}

func genClient(r drv.Rand, id string) *refstore.Client {
	c := &refstore.Client{ID: id, Secret: "s", App: op.ApplicationTypeWeb, Auth: oidc.AuthMethodBasic,
		RespTypes: []oidc.ResponseType{oidc.ResponseTypeCode}, Redirects: []string{"https://app.example.com/cb"}}
	n := r.IntN(4)
	for i := 0; i < n; i++ {
		c.PostLogout = append(c.PostLogout, drv.Pick(r, postPool))
	}
	if r.Chance(1, 2) {
		c.UseGlobs = true
		ng := r.IntN(3) // HasRedirectGlobs without any registered glob is possible
		for i := 0; i < ng; i++ {
			c.PostLogoutGlobs = append(c.PostLogoutGlobs, drv.Pick(r, plGlobPool))
		}
	}
	return c
}

// patternInstance: a string the registered URI reg would match if it were read as a
// path.Match pattern (which nobody opted into). ok=false when reg has no metacharacter.
func patternInstance(r drv.Rand, reg string) (string, bool) {
	var sb strings.Builder
	for i := 0; i < len(reg); i++ {
		switch ch := reg[i]; ch {
		case '?':
			sb.WriteByte(drv.Pick(r, []byte("Xz9")))
		case '*':
			sb.WriteString(drv.Pick(r, []string{"", "evil", "x.y"}))
		case '[':
			j := strings.IndexByte(reg[i+1:], ']')
			if j <= 0 {
				return "", false
			}
			class := strings.TrimLeft(reg[i+1:i+1+j], "^")
			if class == "" {
				return "", false
			}
			sb.WriteByte(class[r.IntN(len(class))])
			i += j + 1
		default:
			sb.WriteByte(ch)
		}
	}
	out := sb.String()
	if m, err := path.Match(reg, out); out == reg || err != nil || !m {
		return "", false
	}
	return out, true
}

func mutate(r drv.Rand, base string) (string, string) {
	if u, ok := patternInstance(r, base); ok && r.Bool() {
		return u, "patshot"
	}
	switch r.IntN(9) {
	case 0:
		return base + drv.Pick(r, []string{"/x", "x", "?x=1", "#f", "/../evil", "&y=2", "/"}), "suffix"
	case 1:
		return drv.Pick(r, []string{"https://evil.example/?u=", "https://evil.example/", "x"}) + base, "prefix"
	case 2:
		if i := strings.Index(base, "://"); i >= 0 {
			return base[:i+3] + "evil.example@" + base[i+3:], "userinfo"
		}
		return "evil@" + base, "userinfo"
	case 3:
		if i := strings.Index(base, "://"); i >= 0 {
			rest := base[i+3:]
			j := strings.IndexAny(rest, "/?#")
			if j < 0 {
				j = len(rest)
			}
			return base[:i+3] + strings.ToUpper(rest[:j]) + rest[j:], "hostcase"
		}
		return strings.ToUpper(base), "hostcase"
	case 4:
		return drv.Pick(r, []string{"https://evil.example/bye", "javascript:alert(1)", "//evil.example/bye", "https://app.example.com.evil.example/bye"}), "foreign"
	case 5:
		return drv.Pick(r, []string{"https://app.example.com/%zz", base + "\x7f", "http://[::1/bye", ":"}), "unparseable"
	case 6:
		if strings.HasPrefix(base, "https://") {
			return "http://" + base[8:], "scheme"
		}
		return "https://" + strings.TrimPrefix(base, "http://"), "scheme"
	default:
		return drv.Pick(r, plShots), "globshot"
	}
}

var states = []string{"xyz", "a b&c=d", "a+b", "%41%zz", "\xc3\xbc\xe2\x82\xac", "#frag?x=1", "\x00\x7f\xff", "=&=&", "state", "https://evil.example/?state=1"}

func genState(r drv.Rand) (string, string) {
	switch r.IntN(5) {
	case 0, 1:
		return "", "none"
	case 2:
		return "st-" + fmt.Sprint(r.IntN(1000)), "plain"
	case 3:
		return drv.Pick(r, states), "special"
	default:
		return string(r.Bytes(1 + r.IntN(24))), "bytes"
	}
}

// ---------------------------------------------------------------- hints

type hintSpec struct {
	kind     string // none valid expired future badsig foreign garbage tampered expbadsig
	sub, azp string
	iss      string // issuer the token is signed for ("" = the issuer of the request it is sent with)
	key      string // provider key that signs it: "k1" / "k2" ("" = k1)
}

// the provider's signing keys; which of them the storage publishes varies per request
func provKey(name string) *refstore.SigningKey {
	if name == "" {
		name = "k1"
	}
	return &refstore.SigningKey{KID: name, Alg: jose.ES256, Priv: opfix.ECKey("op-" + name)}
}

func (h hintSpec) keyName() string {
	if h.key == "" {
		return "k1"
	}
	return h.key
}

// term: what the driver knows about the token (C18_Session.tok)
func (h hintSpec) term(current string) string {
	iss := h.iss
	if iss == "" {
		iss = current
	}
	switch h.kind {
	case "none":
		return "TNone"
	case "valid":
		return emit.Ctor("TSigned", emit.Str(h.keyName()), emit.Str(iss), "false", emit.Str(h.sub), emit.Str(h.azp))
	case "expired", "future":
		return emit.Ctor("TSigned", emit.Str(h.keyName()), emit.Str(iss), "true", emit.Str(h.sub), emit.Str(h.azp))
	case "foreign":
		return emit.Ctor("TSigned", emit.Str(h.keyName()), emit.Str("https://evil.example"), "false", emit.Str(h.sub), emit.Str(h.azp))
	default:
		return "TBad"
	}
}

func sign(key any, kid string, claims map[string]any) string {
	signer, err := jose.NewSigner(jose.SigningKey{Algorithm: jose.ES256, Key: &jose.JSONWebKey{Key: key, KeyID: kid}}, (&jose.SignerOptions{}).WithType("JWT"))
	if err != nil {
		panic(err)
	}
	b, _ := json.Marshal(claims)
	jws, err := signer.Sign(b)
	if err != nil {
		panic(err)
	}
	s, err := jws.CompactSerialize()
	if err != nil {
		panic(err)
	}
	return s
}

func (h hintSpec) token(current string) string {
	sk := provKey(h.key)
	iss := h.iss
	if iss == "" {
		iss = current
	}
	if h.kind == "none" {
		return ""
	}
	if h.kind == "garbage" {
		return "aaa.bbb.ccc"
	}
	now := time.Now()
	claims := map[string]any{"iss": iss, "sub": h.sub, "aud": []string{"somebody"},
		"iat": now.Add(-2 * time.Hour).Unix(), "exp": now.Add(2 * time.Hour).Unix(), "auth_time": now.Add(-2 * time.Hour).Unix()}
	if h.azp != "" {
		claims["azp"] = h.azp
	}
	key, kid := sk.Priv, sk.KID
	switch h.kind {
	case "expired", "expbadsig":
		claims["exp"] = now.Add(-time.Hour).Unix()
	case "future":
		claims["iat"] = now.Add(time.Hour).Unix()
	case "foreign":
		claims["iss"] = "https://evil.example"
	}
	if h.kind == "badsig" || h.kind == "expbadsig" {
		key = opfix.ECKey("attacker")
	}
	tok := sign(key, kid, claims)
	if h.kind == "tampered" {
		parts := strings.Split(tok, ".")
		other := strings.Split(sign(key, kid, map[string]any{"iss": iss, "sub": "mallory", "azp": h.azp, "aud": []string{"x"},
			"iat": now.Unix(), "exp": now.Add(time.Hour).Unix()}), ".")
		tok = parts[0] + "." + other[1] + "." + parts[2]
	}
	return tok
}

// ---------------------------------------------------------------- one case

// one provider instance and the requests sent to it in sequence
type esCase struct {
	issuerMode int // 0 static issuer, 1 op.IssuerFromHost, 2 op.IssuerFromForwardedOrHost
	defaultU   string
	clients    []*refstore.Client
	reqs       []esReq
	tags       []string
	tsMode     string // "" storage without the optional CanTerminateSessionFromRequest; "echo" | "fixed" | "error"
	tsFixed    string
}

type esReq struct {
	router    opfix.Router
	host, fwd string // Request.Host and `Forwarded: host=` ("" = none)
	hint      hintSpec
	clientID  string
	uri       string
	state     string
	fault     int      // 0 none, 1 GetClientByClientID, 2 TerminateSession
	published []string // key ids the storage publishes while this request is served (nil = k1)
}

func routerName(r opfix.Router) string {
	if r == opfix.Legacy {
		return "Legacy"
	}
	return "Provider"
}

// the issuer the provider must derive for this request
func (c esCase) issuer(q esReq) string {
	switch c.issuerMode {
	case 1:
		return "https://" + q.host
	case 2:
		if q.fwd != "" {
			return "https://" + q.fwd
		}
		return "https://" + q.host
	}
	return opfix.Issuer
}

func verifiable(kind string) bool { return kind == "valid" || kind == "expired" || kind == "future" }

func run(w *emit.Writer, c esCase) {
	store := refstore.New(provKey("k1"))
	for _, cl := range c.clients {
		store.Clients[cl.ID] = cl
	}
	issuer := op.StaticIssuer(opfix.Issuer)
	switch c.issuerMode {
	case 1:
		issuer = op.IssuerFromHost("")
	case 2:
		issuer = op.IssuerFromForwardedOrHost("")
	}
	var tsfr *refstore.TSFR
	var wrap func(op.Storage) op.Storage
	if c.tsMode != "" {
		tsfr = &refstore.TSFR{Mode: c.tsMode, Fixed: c.tsFixed}
		wrap = func(st op.Storage) op.Storage { tsfr.Storage = st; return tsfr }
	}
	f, err := opfix.NewWithIssuerStorage(store, opfix.Options{DefaultLogout: c.defaultU}, issuer, wrap)
	if err != nil {
		fmt.Fprintln(os.Stderr, "fixture:", err)
		os.Exit(2)
	}
	defaultU := c.defaultU
	if defaultU == "" {
		defaultU = "/logged-out"
	}
	parse := []string{defaultU}
	var reqTerms, outs []string
	var human []map[string]any
	var uris []string
	for _, rq := range c.reqs {
		cur := c.issuer(rq)
		q := url.Values{}
		// key rotation: what the storage publishes while THIS request is served
		pub := rq.published
		if len(pub) == 0 {
			pub = []string{"k1"}
		}
		store.Signing = provKey(pub[0])
		store.ExtraPub = nil
		for _, k := range pub[1:] {
			sk := provKey(k)
			store.ExtraPub = append(store.ExtraPub, &refstore.PublicKey{KID: sk.KID, Alg: sk.Alg, UseStr: "sig", Pub: &sk.Priv.(*ecdsa.PrivateKey).PublicKey})
		}
		if tok := rq.hint.token(cur); tok != "" {
			q.Set("id_token_hint", tok)
		}
		if rq.clientID != "" {
			q.Set("client_id", rq.clientID)
		}
		if rq.uri != "" {
			q.Set("post_logout_redirect_uri", rq.uri)
		}
		if rq.state != "" {
			q.Set("state", rq.state)
		}
		store.ResetJournal()
		store.FaultMethod = ""
		if rq.fault == 1 {
			store.FaultMethod = "GetClientByClientID"
		}
		if rq.fault == 2 && tsfr == nil { // the journal name carries the arguments: aim at the call a correct provider makes
			eu, ec := "", ""
			accepted := verifiable(rq.hint.kind) && (rq.hint.iss == "" || rq.hint.iss == cur) && slices.Contains(pub, rq.hint.keyName())
			if accepted {
				eu, ec = rq.hint.sub, rq.hint.azp
			} else if rq.hint.kind == "none" {
				ec = rq.clientID
			}
			store.FaultMethod = "TerminateSession:" + eu + ":" + ec
		}
		resp := f.GetAt(rq.router, rq.host, rq.fwd, "/end_session", q)
		store.FaultMethod = ""
		term := emit.None
		var termPair string
		for _, j := range store.JournalCopy() {
			if strings.HasPrefix(j, "TerminateSession:") {
				rest := j[len("TerminateSession:"):]
				i := strings.LastIndex(rest, ":")
				termPair = emit.Pair(emit.Str(rest[:i]), emit.Str(rest[i+1:]))
				term = emit.Some(termPair)
			}
		}
		if tsfr != nil {
			for _, call := range tsfr.TakeCalls() {
				termPair = emit.Pair(emit.Str(call.UserID), emit.Str(call.ClientID))
				term = emit.Some(termPair)
			}
		}
		var obs string
		switch {
		case resp.Panic != "":
			obs = "EPanic"
		case resp.Status == http.StatusFound && termPair != "":
			obs = emit.Ctor("ERedirect", emit.Str(resp.Header.Get("Location")), termPair)
		case resp.Status >= 400:
			obs = emit.Ctor("EPage", fmt.Sprintf("%d%%N", resp.Status), emit.Str(resp.OAuthError()), term)
		default:
			obs = "EOther"
		}
		outs = append(outs, obs)
		reqTerms = append(reqTerms, emit.Ctor("Build_ereq", routerName(rq.router), emit.Str(cur), emit.StrList(pub), rq.hint.term(cur), emit.Str(rq.clientID),
			emit.Str(rq.uri), emit.Str(rq.state), []string{"EF_None", "EF_GetClient", "EF_Terminate"}[rq.fault]))
		parse = append(parse, rq.uri)
		uris = append(uris, rq.uri)
		human = append(human, map[string]any{"router": rq.router.String(), "host": rq.host, "forwarded": rq.fwd, "issuer": cur,
			"hint_kind": rq.hint.kind, "hint_sub": rq.hint.sub, "hint_azp": rq.hint.azp, "hint_iss": rq.hint.iss, "hint_key": rq.hint.keyName(), "published": pub, "client_id": rq.clientID,
			"post_logout_redirect_uri": rq.uri, "state": rq.state, "fault": rq.fault, "status": resp.Status, "location": resp.Header.Get("Location"),
			"body": resp.Body, "journal": store.JournalCopy()})
	}
	cl := make([]string, len(c.clients))
	for i, x := range c.clients {
		cl[i] = clientTerm(x)
	}
	tsTerm := "TS_Absent"
	switch c.tsMode {
	case "echo":
		tsTerm = "TS_Echo"
	case "error":
		tsTerm = "TS_Err"
	case "fixed": // what http.Redirect makes of the storage's answer on this endpoint
		rec := httptest.NewRecorder()
		http.Redirect(rec, httptest.NewRequest(http.MethodGet, "https://op.example.com/end_session", nil), c.tsFixed, http.StatusFound)
		tsTerm = emit.Ctor("TS_Fixed", emit.Str(rec.Header().Get("Location")))
	}
	in := emit.Ctor("IEnd", emit.Str(defaultU), tsTerm, emit.List(cl), tables(c.clients, uris, parse), emit.List(reqTerms))
	w.Add(emit.Case{Input: in, Observed: emit.Ctor("OEnd", emit.List(outs)), Tags: c.tags,
		Human: map[string]any{"issuer_mode": c.issuerMode, "tsfr": c.tsMode, "tsfr_fixed": c.tsFixed, "default": defaultU, "requests": human, "clients": clientsHuman(c.clients)}})
}

func clientsHuman(cs []*refstore.Client) []map[string]any {
	var out []map[string]any
	for _, c := range cs {
		out = append(out, map[string]any{"id": c.ID, "post_logout": c.PostLogout, "use_globs": c.UseGlobs, "globs": c.PostLogoutGlobs})
	}
	return out
}

var hosts = []string{"a.example.com", "b.example.com"}

// genReq draws one request for the provider c; tags get its input classes.
func genReq(r drv.Rand, c *esCase, tags map[string]bool) esReq {
	a, b := c.clients[0], c.clients[1]
	q := esReq{router: opfix.Provider, host: drv.Pick(r, hosts)}
	if r.Bool() {
		q.router = opfix.Legacy
	}
	if r.Chance(1, 3) {
		q.fwd = drv.Pick(r, hosts)
	}
	hk := drv.Pick(r, []string{"none", "none", "valid", "valid", "valid", "valid", "expired", "expired", "future", "badsig", "foreign", "garbage", "tampered", "expbadsig"})
	azp := drv.Pick(r, []string{"c0", "c0", "c0", "c1", "", "ghost"})
	q.hint = hintSpec{kind: hk, sub: drv.Pick(r, []string{"alice", "bob", "user 1", "u:1"})}
	issKind := "current"
	q.published = drv.Pick(r, [][]string{{"k1"}, {"k1"}, {"k2"}, {"k1", "k2"}, {"k2", "k1"}})
	keyKind := "none"
	if hk != "none" {
		q.hint.key = drv.Pick(r, []string{"k1", "k1", "k2"})
		keyKind = "withdrawn"
		if slices.Contains(q.published, q.hint.key) {
			keyKind = "published"
		}
		q.hint.azp = azp
		if r.Chance(1, 4) { // a hint of another issuer of the same provider (same key)
			q.hint.iss = drv.Pick(r, []string{"https://a.example.com", "https://b.example.com", opfix.Issuer})
			issKind = "other"
			if q.hint.iss == c.issuer(q) {
				issKind = "current"
			}
		}
	}
	cidKind := "absent"
	switch r.IntN(6) {
	case 0, 1:
		q.clientID, cidKind = azp, "same"
	case 2:
		q.clientID, cidKind = drv.Pick(r, []string{"c0", "c1", "ghost"}), "any"
	}
	if hk == "none" && r.Chance(2, 3) {
		q.clientID, cidKind = drv.Pick(r, []string{"c0", "c0", "c1", "ghost"}), "named"
	}
	owner := a
	if (hk == "none" && q.clientID == "c1") || (hk != "none" && azp == "c1") {
		owner = b
	}
	uriKind := "none"
	switch k := r.IntN(10); {
	case k < 2:
	case k < 5 && len(owner.PostLogout) > 0:
		q.uri, uriKind = drv.Pick(r, owner.PostLogout), "exact"
	case k < 6:
		other := a
		if owner == a {
			other = b
		}
		if len(other.PostLogout) > 0 {
			q.uri, uriKind = drv.Pick(r, other.PostLogout), "otherclient"
		}
	case k < 8 && owner.UseGlobs:
		q.uri, uriKind = drv.Pick(r, plShots), "globshot"
	default:
		base := "https://app.example.com/bye"
		if len(owner.PostLogout) > 0 {
			base = drv.Pick(r, owner.PostLogout)
		}
		q.uri, uriKind = mutate(r, base)
	}
	var stKind string
	q.state, stKind = genState(r)
	if r.Chance(1, 12) {
		q.fault = 1 + r.IntN(2)
		if q.fault == 2 && c.tsMode != "" { // TerminateSession is not called then
			q.fault = 1
		}
	}
	for _, t := range []string{"hintkey=" + keyKind, "router=" + q.router.String(), "hint=" + hk, "hintiss=" + issKind, "client_id=" + cidKind, "uri=" + uriKind,
		"state=" + stKind, fmt.Sprintf("fault=%d", q.fault), fmt.Sprintf("globs=%v", owner.UseGlobs), fmt.Sprintf("forwarded=%v", q.fwd != "")} {
		tags[t] = true
	}
	return q
}

func gen(r drv.Rand, w *emit.Writer) {
	c := esCase{issuerMode: drv.Pick(r, []int{0, 1, 1, 2, 2})}
	c.defaultU = drv.Pick(r, []string{"", "", "https://op.example.com/bye?x=1", "https://op.example.com/done#top", "https://op.example.com/%zz"})
	c.clients = []*refstore.Client{genClient(r, "c0"), genClient(r, "c1")}
	// the storage may implement the optional CanTerminateSessionFromRequest
	switch r.IntN(8) {
	case 0, 1:
		c.tsMode = "echo"
	case 2:
		c.tsMode, c.tsFixed = "fixed", drv.Pick(r, []string{"", "https://consent.example/logout?x=1", "/ui/bye"})
	case 3:
		c.tsMode = "error"
	}
	n := drv.Pick(r, []int{1, 1, 2, 3, 4})
	tags := map[string]bool{}
	for i := 0; i < n; i++ {
		c.reqs = append(c.reqs, genReq(r, &c, tags))
	}
	c.tags = []string{fmt.Sprintf("issuer_mode=%d", c.issuerMode), fmt.Sprintf("requests=%d", n), "tsfr=" + c.tsMode}
	var ts []string
	for t := range tags {
		ts = append(ts, t)
	}
	sort.Strings(ts)
	c.tags = append(c.tags, ts...)
	run(w, c)
}

func directed(w *emit.Writer) {
	web := &refstore.Client{ID: "c0", PostLogout: []string{"https://app.example.com/bye", "https://app.example.com/bye?z=9&state=old&a=1"}, UseGlobs: true,
		PostLogoutGlobs: []string{"https://app.example.com/out/*"}}
	other := &refstore.Client{ID: "c1", PostLogout: []string{"https://other.example.org/logout/done"}}
	cl := []*refstore.Client{web, other}
	for _, router := range []opfix.Router{opfix.Provider, opfix.Legacy} {
		for _, hk := range []string{"none", "valid", "expired", "badsig", "foreign", "expbadsig", "tampered"} {
			for _, u := range []string{"", "https://app.example.com/bye", "https://app.example.com/out/x", "https://other.example.org/logout/done",
				"https://app.example.com/bye?z=9&state=old&a=1", "https://evil.example/bye"} {
				for _, st := range []string{"", "a b&c=d+e"} {
					h := hintSpec{kind: hk, sub: "alice"}
					cid := "c0"
					if hk != "none" {
						h.azp, cid = "c0", ""
					}
					run(w, esCase{clients: cl, reqs: []esReq{{router: router, host: "op.example.com", hint: h, clientID: cid, uri: u, state: st}},
						tags: []string{"directed=grid", "router=" + router.String(), "hint=" + hk}})
				}
			}
		}
		// contradicting client_id, hint of another client asking for this client's URI
		run(w, esCase{clients: cl, reqs: []esReq{{router: router, host: "op.example.com", hint: hintSpec{kind: "valid", sub: "alice", azp: "c1"}, clientID: "c0", uri: "https://app.example.com/bye"}},
			tags: []string{"directed=contradict", "router=" + router.String(), "hint=valid"}})
		run(w, esCase{clients: cl, reqs: []esReq{{router: router, host: "op.example.com", hint: hintSpec{kind: "valid", sub: "alice", azp: "c1"}, uri: "https://app.example.com/bye"}},
			tags: []string{"directed=otherclient", "router=" + router.String(), "hint=valid"}})
		// dynamic issuer: one provider, two hosts; hints of host A at host B and back
		for _, mode := range []int{1, 2} {
			hA := hintSpec{kind: "valid", sub: "alice", azp: "c0", iss: "https://a.example.com"}
			hB := hintSpec{kind: "valid", sub: "bob", azp: "c0", iss: "https://b.example.com"}
			fw := ""
			if mode == 2 {
				fw = "b.example.com"
			}
			run(w, esCase{issuerMode: mode, clients: cl, reqs: []esReq{
				{router: router, host: "a.example.com", hint: hintSpec{kind: "none"}, clientID: "c0"},
				{router: router, host: "b.example.com", hint: hA, uri: "https://app.example.com/bye"},
				{router: router, host: "b.example.com", hint: hB, uri: "https://app.example.com/bye", state: "s"},
				{router: router, host: "a.example.com", fwd: fw, hint: hB},
				{router: router, host: "a.example.com", hint: hA}},
				tags: []string{"directed=hosts", "router=" + router.String(), fmt.Sprintf("issuer_mode=%d", mode)}})
		}
		// signing-key rotation on one provider: k1 used, withdrawn, presented again, republished
		h1 := hintSpec{kind: "valid", sub: "alice", azp: "c0", key: "k1"}
		h2 := hintSpec{kind: "valid", sub: "alice", azp: "c0", key: "k2"}
		run(w, esCase{clients: cl, reqs: []esReq{
			{router: router, host: "op.example.com", hint: h1, uri: "https://app.example.com/bye", published: []string{"k1"}},
			{router: router, host: "op.example.com", hint: h2, uri: "https://app.example.com/bye", published: []string{"k1"}},
			{router: router, host: "op.example.com", hint: h1, uri: "https://app.example.com/bye", published: []string{"k1", "k2"}},
			{router: router, host: "op.example.com", hint: h1, uri: "https://app.example.com/bye", published: []string{"k2"}},
			{router: router, host: "op.example.com", hint: h2, uri: "https://app.example.com/bye", state: "s", published: []string{"k2"}},
			{router: router, host: "op.example.com", hint: h1, published: []string{"k2", "k1"}}},
			tags: []string{"directed=rotation", "router=" + router.String()}})
		// storages with the optional CanTerminateSessionFromRequest; requests that identify no client
		for _, ts := range [][2]string{{"echo", ""}, {"fixed", ""}, {"fixed", "https://consent.example/logout"}, {"error", ""}} {
			run(w, esCase{clients: cl, tsMode: ts[0], tsFixed: ts[1], reqs: []esReq{
				{router: router, host: "op.example.com", hint: hintSpec{kind: "none"}, uri: "https://evil.example/bye"},
				{router: router, host: "op.example.com", hint: hintSpec{kind: "none"}, uri: "https://evil.example/bye", state: "s t"},
				{router: router, host: "op.example.com", hint: hintSpec{kind: "none"}, clientID: "c0", uri: "https://app.example.com/bye", state: "s"},
				{router: router, host: "op.example.com", hint: h1, uri: "https://evil.example/bye"},
				{router: router, host: "op.example.com", hint: h1, uri: "https://app.example.com/out/x"}},
				tags: []string{"directed=tsfr", "tsfr=" + ts[0], "router=" + router.String()}})
		}
	}
}

func main() {
	cfg := drv.Parse()
	r := drv.NewRand(cfg.Seed)
	shard := 0 // quick: spread over 16 coqc processes
	if !cfg.Quick {
		shard = 250 // bounds coqc memory
	}
	w := emit.NewWriter(cfg.Out, "C18_spec", shard, cfg.Only)
	directed(w)
	n := cfg.Count(700, 10000)
	for i := 0; i < n; i++ {
		gen(r, w)
	}
	err := w.Close(emit.Meta{Property: "C18", Tier: cfg.Tier, Seed: cfg.Seed,
		Rule: "1-4 GET /end_session requests in sequence on ONE provider instance whose storage publishes a per-request subset of two signing keys (rotation / withdrawal between requests) and may implement the optional CanTerminateSessionFromRequest (echo / own URI incl. empty / error) (static issuer, op.IssuerFromHost or op.IssuerFromForwardedOrHost; Host / Forwarded header vary per request), each on a random router: hint kind (absent, valid, expired, iat in the future, wrong key, foreign issuer, not a JWT, payload swapped, expired+wrong key; really signed ES256; 1/4 signed for another issuer of the same provider) x azp (client, other client, none, unknown) x client_id (absent, same, contradicting, unknown) x post_logout_redirect_uri (absent, registered, registered for the other client, glob instance, mutated: suffix/prefix/userinfo/host case/foreign/unparseable/scheme) x state (absent, plain, special characters, random bytes) x two random registrations (0-3 URIs, optional path.Match globs incl. malformed) x default logout URI x storage fault; plus a directed grid and directed two-host sequences. non-trivial = some request not rejected because of its hint; distinct = distinct Coq input terms",
	})
	if err != nil {
		fmt.Fprintln(os.Stderr, err)
		os.Exit(2)
	}
}
