// Round 11 (C12_Ext.v): the constructors, getters and non-JSON codecs that bear
// on the claims codec and that no correspondence run executed before:
// oidc.NewLogoutTokenClaims, IDTokenClaims.GetUserInfo, GetAddress (UserInfo,
// IntrospectionResponse), SpaceDelimitedArray.Scan / Value, Time.AsTime /
// FromTime / NowTime, RequestObject / JWTTokenRequest getters, the generated
// codecs of op.ApplicationType / op.AccessTokenType, httphelper.ConcatenateJSON.
package main

import (
	"bytes"
	"encoding/json"
	"errors"
	"fmt"
	"reflect"
	"strings"
	"time"
	"unicode/utf8"

	"verifharness/drv"
	"verifharness/emit"

	httphelper "github.com/zitadel/oidc/v3/pkg/http"
	"github.com/zitadel/oidc/v3/pkg/oidc"
	"github.com/zitadel/oidc/v3/pkg/op"
)

// ---------- vocabulary ----------

type stringerT string

func (s stringerT) String() string { return string(s) }

// dyn: a value of dynamic type as sql.Scanner / gqlgen hand it over.
type dyn struct {
	kind string // DNil DStr DBytes DStringer DInt DBool DOther
	s    string
	z    int64
	b    bool
}

func (d dyn) term() string {
	switch d.kind {
	case "DStr", "DBytes", "DStringer":
		return emit.Ctor(d.kind, emit.Str(d.s))
	case "DInt":
		return emit.Ctor("DInt", emit.Z(d.z))
	case "DBool":
		return emit.Ctor("DBool", emit.Bool(d.b))
	}
	return d.kind
}

func (d dyn) real() any {
	switch d.kind {
	case "DStr":
		return d.s
	case "DBytes":
		return []byte(d.s)
	case "DStringer":
		return stringerT(d.s)
	case "DInt":
		return d.z
	case "DBool":
		return d.b
	case "DOther":
		return 3.5
	}
	return nil
}

// dynOf: what a driver.Value is, in the model's vocabulary.
func dynOf(v any) string {
	switch x := v.(type) {
	case nil:
		return "DNil"
	case string:
		return emit.Ctor("DStr", emit.Str(x))
	case []byte:
		return emit.Ctor("DBytes", emit.Str(string(x)))
	case int64:
		return emit.Ctor("DInt", emit.Z(x))
	case bool:
		return emit.Ctor("DBool", emit.Bool(x))
	}
	return "DOther"
}

func optStrs(s []string) string {
	if s == nil {
		return emit.None
	}
	return emit.Some(emit.StrList(s))
}

func floorDiv(a, b int64) int64 {
	q := a / b
	if (a%b != 0) && ((a < 0) != (b < 0)) {
		q--
	}
	return q
}

type extState struct {
	w              *emit.Writer
	g              gen
	clockAmbiguous int
}

func (x *extState) add(in, obs, name string, tags []string, human map[string]any) {
	x.w.Add(emit.Case{Input: emit.Ctor("IExt", in), Observed: obs,
		Tags: append([]string{"kind=ext", "ext=" + name}, tags...), Human: human})
}

func ext(y string) string { return emit.Ctor("OExt", y) }

// ---------- NewLogoutTokenClaims ----------

func (x *extState) newLogout() {
	g, r := x.g, x.g.r
	iss, sub, jti, sid := g.str(), g.str(), g.str(), g.str()
	aud := g.strs(g.str)
	var exp time.Time
	expKind := r.IntN(5)
	switch expKind {
	case 0: // the zero time.Time
	case 1:
		exp = time.Unix(g.timeVal(), 0)
	case 2:
		exp = time.Unix(g.timeVal(), int64(drv.Pick(r, []int{1, 999999999, 500000000}))).UTC()
	case 3:
		exp = time.Unix(base+int64(r.IntN(100000)), int64(r.IntN(1000000000))).In(time.FixedZone("x", 3600*(r.IntN(25)-12)))
	default:
		exp = time.Now().Add(time.Duration(r.IntN(7200)-600) * time.Second)
	}
	skew := drv.Pick(r, []time.Duration{0, 0, time.Second, -time.Second, 5 * time.Minute, 1, 999999999, 1500 * time.Millisecond,
		time.Duration(r.IntN(2000000000)), -time.Duration(r.IntN(2000000000)), 24 * time.Hour})
	ti := types[2] // TLogout
	var c *oidc.LogoutTokenClaims
	var t0, t1 time.Time
	var vals []fv
	var valsT string
	var raw []byte
	var merr, uerr error
	back := reflect.New(ti.Type)
	p := drv.Catch(func() {
		t0 = time.Now()
		c = oidc.NewLogoutTokenClaims(iss, sub, oidc.Audience(aud), exp, jti, sid, skew)
		t1 = time.Now()
		vals, _ = project(ti, reflect.ValueOf(c))
		valsT = valsTerm(vals)
		raw, merr = json.Marshal(c)
		if merr == nil {
			uerr = json.Unmarshal(raw, back.Interface())
		}
	})
	n0, n1 := t0.UnixNano(), t1.UnixNano()
	if p == "" && floorDiv(n0-int64(skew), 1000000000) != floorDiv(n1-int64(skew), 1000000000) {
		x.clockAmbiguous++
		return
	}
	in := emit.Ctor("XNewLogout", emit.Str(iss), emit.Str(sub), optStrs(aud), emit.Z(exp.Unix()), emit.Z(int64(exp.Nanosecond())),
		emit.Str(jti), emit.Str(sid), emit.Z(int64(skew)), emit.Z(n0))
	obs := "OPanic"
	human := map[string]any{"doc": string(raw), "panic": p}
	if p == "" {
		docT, backT := emit.None, emit.None
		if merr != nil {
			human["marshal_error"] = merr.Error()
		} else if d, ok := parseDoc(raw); ok {
			docT = emit.Some(jterm(d))
			if uerr == nil {
				if pp := drv.Catch(func() { backT = emit.Some(decTerm(project(ti, back))) }); pp != "" {
					human["panic"] = pp
					p = pp
				}
			} else {
				human["unmarshal_error"] = uerr.Error()
			}
		}
		if p == "" {
			obs = ext(emit.Ctor("YNewLogout", valsT, docT, backT))
		}
	}
	audTag := "set"
	if aud == nil {
		audTag = "nil"
	} else if len(aud) == 0 {
		audTag = "empty"
	}
	x.add(in, obs, "newlogout", []string{fmt.Sprintf("exp=%d", expKind), "aud=" + audTag}, human)
}

// ---------- GetUserInfo / GetAddress ----------

func addrTerm(a *oidc.UserInfoAddress) string {
	return emit.Ctor("Addr", emit.Str(a.Formatted), emit.Str(a.StreetAddress), emit.Str(a.Locality), emit.Str(a.Region),
		emit.Str(a.PostalCode), emit.Str(a.Country))
}

func (x *extState) userInfo() {
	g := x.g
	ti, tu := types[0], types[3] // TID, TUserInfo
	vals, claims, vtags := g.value(ti)
	inVals, inClaims := valsTerm(vals), objterm(genericObj(claims))
	const probe = "\x00verif-probe"
	var uiT, clT, aT string
	indep := true
	p := drv.Catch(func() {
		in := build(ti, vals, claims).Interface().(*oidc.IDTokenClaims)
		ui := in.GetUserInfo()
		a := ui.GetAddress()
		aT = addrTerm(a)
		uvals, ucl := project(tu, reflect.ValueOf(ui))
		uiT = valsTerm(uvals)
		// the custom claims, in the model's terms: a value that is the very value
		// handed in is the JSON the driver wrote for it
		out := map[string]any{}
		for k, v := range ucl {
			if rv, ok := in.Claims[k]; ok && reflect.DeepEqual(rv, v) {
				out[k] = claims[k]
			} else {
				out[k] = "<not the claim handed in>"
			}
		}
		clT = objterm(genericObj(out))
		if ui.Claims != nil {
			ui.Claims[probe] = 1
			_, leaked := in.Claims[probe]
			indep = !leaked
			delete(ui.Claims, probe)
		}
	})
	obs := "OPanic"
	if p == "" {
		obs = ext(emit.Ctor("YUserInfo", uiT, clT, aT, emit.Bool(indep)))
	}
	x.add(emit.Ctor("XUserInfo", inVals, inClaims), obs, "getuserinfo", vtags, map[string]any{"panic": p})
}

func (x *extState) getAddr(intro bool, set bool) {
	g := x.g
	var a *oidc.UserInfoAddress
	in := emit.None
	if set {
		a = &oidc.UserInfoAddress{Formatted: g.str(), StreetAddress: g.str(), Locality: g.str(), Region: g.str(), PostalCode: g.str(), Country: g.str()}
		in = emit.Some(addrTerm(a))
	}
	var got *oidc.UserInfoAddress
	p := drv.Catch(func() {
		if intro {
			got = (&oidc.IntrospectionResponse{Address: a}).GetAddress()
		} else {
			got = (&oidc.UserInfo{Address: a}).GetAddress()
		}
	})
	obs := "OPanic"
	if p == "" && got != nil {
		obs = ext(emit.Ctor("YAddr", addrTerm(got)))
	}
	x.add(emit.Ctor("XGetAddr", emit.Bool(intro), in), obs, "getaddress", []string{fmt.Sprintf("intro=%v", intro), fmt.Sprintf("set=%v", set)}, nil)
}

// ---------- SpaceDelimitedArray as a database value ----------

var scanTexts = []string{"", "openid", "openid profile", "openid profile email offline_access", " lead", "trail ", "a  b", " ", "  ",
	"ünï x", "a\tb c", "a\nb", "x\x00y z"}

func (x *extState) sdaScan(init []string, d dyn, tag string) {
	dst := oidc.SpaceDelimitedArray(nil)
	if init != nil {
		dst = append(oidc.SpaceDelimitedArray{}, init...)
	}
	var err error
	p := drv.Catch(func() { err = dst.Scan(d.real()) })
	obs := "OPanic"
	if p == "" {
		obs = ext(emit.Ctor("YScan", emit.Bool(err == nil), optStrs(dst)))
	}
	x.add(emit.Ctor("XSdaScan", optStrs(init), d.term()), obs, "sda-scan", []string{"src=" + d.kind, "text=" + tag}, nil)
}

func (x *extState) sdaValue(l []string, tag string) {
	var v any
	var verr error
	backs := [2]string{emit.None, emit.None}
	p := drv.Catch(func() {
		v, verr = oidc.SpaceDelimitedArray(l).Value()
		if s, ok := v.(string); ok && verr == nil {
			for i, src := range []any{s, []byte(s)} {
				dst := oidc.SpaceDelimitedArray{"#"}
				if err := dst.Scan(src); err == nil {
					backs[i] = emit.Some(optStrs(dst))
				}
			}
		}
	})
	obs := "OPanic"
	if p == "" {
		vT := emit.None
		if verr == nil {
			vT = emit.Some(dynOf(v))
		}
		obs = ext(emit.Ctor("YValue", vT, backs[0], backs[1]))
	}
	x.add(emit.Ctor("XSdaValue", optStrs(l)), obs, "sda-value", []string{"list=" + tag}, nil)
}

// ---------- oidc.Time <-> time.Time ----------

var secPool = []int64{0, 1, -1, -62135596800, -62135596799, -62135596801, 253402300799, 1 << 53, -(1 << 53), 1 << 62, -(1 << 62), 1700000000, 1699999999}

func (x *extState) times() {
	r := x.g.r
	for _, sec := range secPool {
		for _, nsec := range []int64{0, 1, 999999999} {
			tt := time.Unix(sec, nsec)
			switch r.IntN(3) {
			case 0:
				tt = tt.UTC()
			case 1:
				tt = tt.In(time.FixedZone("x", 3600*(r.IntN(25)-12)))
			}
			x.fromTime(tt, "pool")
		}
		x.asTime(sec)
	}
	x.fromTime(time.Time{}, "zero")
	x.fromTime(time.Now(), "now")
	for i := 0; i < 6; i++ {
		x.fromTime(time.Unix(x.g.timeVal(), int64(r.IntN(1000000000))), "random")
		x.asTime(x.g.timeVal())
	}
	for i := 0; i < 4; i++ {
		var t0, t1 time.Time
		var z oidc.Time
		p := drv.Catch(func() {
			t0 = time.Now()
			z = oidc.NowTime()
			t1 = time.Now()
		})
		if p == "" && t0.Unix() != t1.Unix() {
			x.clockAmbiguous++
			continue
		}
		obs := "OPanic"
		if p == "" {
			obs = ext(emit.Ctor("YTime", emit.Z(int64(z))))
		}
		x.add(emit.Ctor("XNowTime", emit.Z(t0.UnixNano())), obs, "nowtime", nil, nil)
	}
}

func (x *extState) fromTime(tt time.Time, tag string) {
	var z oidc.Time
	p := drv.Catch(func() { z = oidc.FromTime(tt) })
	obs := "OPanic"
	if p == "" {
		obs = ext(emit.Ctor("YTime", emit.Z(int64(z))))
	}
	x.add(emit.Ctor("XFromTime", emit.Z(tt.Unix()), emit.Z(int64(tt.Nanosecond()))), obs, "fromtime", []string{"time=" + tag}, nil)
}

func (x *extState) asTime(ts int64) {
	var tt time.Time
	p := drv.Catch(func() { tt = oidc.Time(ts).AsTime() })
	obs := "OPanic"
	if p == "" {
		obs = ext(emit.Ctor("YGoTime", emit.Z(tt.Unix()), emit.Z(int64(tt.Nanosecond()))))
	}
	x.add(emit.Ctor("XAsTime", emit.Z(ts)), obs, "astime", nil, nil)
}

// ---------- getters ----------

func (x *extState) getters() {
	g, r := x.g, x.g.r
	iss := g.str()
	claims := map[string]any{}
	for i := r.IntN(4); i > 0; i-- {
		claims[g.key()] = generic(g.jsonVal(1))
	}
	if r.Chance(1, 3) {
		claims["nothing"] = nil
	}
	key := drv.Pick(r, []string{"role", "nothing", "absent", "iss", ""})
	if len(claims) > 0 && r.Bool() {
		ks := make([]string, 0, len(claims))
		for k := range claims {
			ks = append(ks, k)
		}
		sortStrings(ks)
		key = drv.Pick(r, ks)
	}
	var ro, jt string
	var custom any
	consts := false
	p := drv.Catch(func() {
		req := &oidc.RequestObject{Issuer: iss}
		req.SetSignatureAlgorithm("RS256")
		ro = req.GetIssuer()
		j := &oidc.JWTTokenRequest{Issuer: iss}
		oidc.VerifSetJWTTokenRequestPrivate(j, claims)
		j.SetSignatureAlgorithm("RS256")
		jt = j.GetIssuer()
		custom = j.GetCustomClaim(key)
		consts = j.GetNonce() == "" && j.GetAuthenticationContextClassReference() == "" && j.GetAuthTime().IsZero() && j.GetAuthorizedParty() == ""
	})
	obs := "OPanic"
	if p == "" {
		cT := emit.None
		if custom != nil {
			cT = emit.Some(jterm(custom))
		}
		obs = ext(emit.Ctor("YGetters", emit.Str(ro), emit.Str(jt), cT, emit.Bool(consts)))
	}
	x.add(emit.Ctor("XGetters", emit.Str(iss), objterm(claims), emit.Str(key)), obs, "getters", nil, nil)
}

func sortStrings(s []string) {
	for i := 1; i < len(s); i++ {
		for j := i; j > 0 && s[j] < s[j-1]; j-- {
			s[j], s[j-1] = s[j-1], s[j]
		}
	}
}

// ---------- the generated enum codecs ----------

// enumOps: the two generated types behind one interface (the driver calls the
// real methods of the real types).
type enumOps struct {
	coq      string
	str      func(n int64) string
	isa      func(n int64) bool
	marshal  func(n int64) (js []byte, jerr error, text []byte, terr error, val any, verr error, yaml any, yerr error, gql string)
	parse    func(s string) (int64, error)
	values   func() []int64
	names    func() []string
	unmText  func(init int64, b []byte) (int64, error)
	unmYAML  func(init int64, f func(any) error) (int64, error)
	unmGQL   func(init int64, v any) (int64, error)
	scan     func(init int64, v any) (int64, error)
	unmJSON  func(init int64, b []byte) (int64, error)
}

var enums = []enumOps{
	{
		coq: "EApp",
		str: func(n int64) string { return op.ApplicationType(n).String() },
		isa: func(n int64) bool { return op.ApplicationType(n).IsAApplicationType() },
		marshal: func(n int64) (js []byte, jerr error, text []byte, terr error, val any, verr error, yaml any, yerr error, gql string) {
			v := op.ApplicationType(n)
			js, jerr = json.Marshal(v)
			text, terr = v.MarshalText()
			val, verr = v.Value()
			yaml, yerr = v.MarshalYAML()
			var b bytes.Buffer
			v.MarshalGQL(&b)
			return js, jerr, text, terr, val, verr, yaml, yerr, b.String()
		},
		parse: func(s string) (int64, error) { v, err := op.ApplicationTypeString(s); return int64(v), err },
		values: func() (out []int64) {
			for _, v := range op.ApplicationTypeValues() {
				out = append(out, int64(v))
			}
			return
		},
		names:   op.ApplicationTypeStrings,
		unmText: func(i int64, b []byte) (int64, error) { v := op.ApplicationType(i); err := v.UnmarshalText(b); return int64(v), err },
		unmYAML: func(i int64, f func(any) error) (int64, error) { v := op.ApplicationType(i); err := v.UnmarshalYAML(f); return int64(v), err },
		unmGQL:  func(i int64, x any) (int64, error) { v := op.ApplicationType(i); err := v.UnmarshalGQL(x); return int64(v), err },
		scan:    func(i int64, x any) (int64, error) { v := op.ApplicationType(i); err := v.Scan(x); return int64(v), err },
		unmJSON: func(i int64, b []byte) (int64, error) { v := op.ApplicationType(i); err := json.Unmarshal(b, &v); return int64(v), err },
	},
	{
		coq: "ETok",
		str: func(n int64) string { return op.AccessTokenType(n).String() },
		isa: func(n int64) bool { return op.AccessTokenType(n).IsAAccessTokenType() },
		marshal: func(n int64) (js []byte, jerr error, text []byte, terr error, val any, verr error, yaml any, yerr error, gql string) {
			v := op.AccessTokenType(n)
			js, jerr = json.Marshal(v)
			text, terr = v.MarshalText()
			val, verr = v.Value()
			yaml, yerr = v.MarshalYAML()
			var b bytes.Buffer
			v.MarshalGQL(&b)
			return js, jerr, text, terr, val, verr, yaml, yerr, b.String()
		},
		parse: func(s string) (int64, error) { v, err := op.AccessTokenTypeString(s); return int64(v), err },
		values: func() (out []int64) {
			for _, v := range op.AccessTokenTypeValues() {
				out = append(out, int64(v))
			}
			return
		},
		names:   op.AccessTokenTypeStrings,
		unmText: func(i int64, b []byte) (int64, error) { v := op.AccessTokenType(i); err := v.UnmarshalText(b); return int64(v), err },
		unmYAML: func(i int64, f func(any) error) (int64, error) { v := op.AccessTokenType(i); err := v.UnmarshalYAML(f); return int64(v), err },
		unmGQL:  func(i int64, x any) (int64, error) { v := op.AccessTokenType(i); err := v.UnmarshalGQL(x); return int64(v), err },
		scan:    func(i int64, x any) (int64, error) { v := op.AccessTokenType(i); err := v.Scan(x); return int64(v), err },
		unmJSON: func(i int64, b []byte) (int64, error) { v := op.AccessTokenType(i); err := json.Unmarshal(b, &v); return int64(v), err },
	},
}

func optZ(v int64, err error) string {
	if err != nil {
		return emit.None
	}
	return emit.Some(emit.Z(v))
}

func optS(s string, err error) string {
	if err != nil {
		return emit.None
	}
	return emit.Some(emit.Str(s))
}

func (x *extState) enumStr(e enumOps, n int64) {
	var s, gql string
	var isa bool
	var js, text []byte
	var val, yaml any
	var jerr, terr, verr, yerr, berr error
	var back int64
	p := drv.Catch(func() {
		s = e.str(n)
		isa = e.isa(n)
		js, jerr, text, terr, val, verr, yaml, yerr, gql = e.marshal(n)
		back, berr = e.parse(s)
	})
	obs := "OPanic"
	if p == "" {
		jT := emit.None
		if jerr == nil {
			if d, ok := parseDoc(js); ok {
				jT = emit.Some(jterm(d))
			}
		}
		vT := emit.None
		if verr == nil {
			vT = emit.Some(dynOf(val))
		}
		yT := emit.None
		if ys, ok := yaml.(string); ok && yerr == nil {
			yT = emit.Some(emit.Str(ys))
		}
		obs = ext(emit.Ctor("YEnumStr", emit.Str(s), emit.Bool(isa), jT, optS(string(text), terr), vT, yT, emit.Str(gql), optZ(back, berr)))
	}
	x.add(emit.Ctor("XEnumStr", e.coq, emit.Z(n)), obs, "enum-string", []string{"enum=" + e.coq, fmt.Sprintf("n=%d", n)}, nil)
}

func (x *extState) enumList(e enumOps) {
	var vs []int64
	var ns []string
	p := drv.Catch(func() { vs, ns = e.values(), e.names() })
	obs := "OPanic"
	if p == "" {
		items := make([]string, len(vs))
		for i, v := range vs {
			items[i] = emit.Z(v)
		}
		obs = ext(emit.Ctor("YEnumList", emit.List(items), emit.StrList(ns)))
	}
	x.add(emit.Ctor("XEnumList", e.coq), obs, "enum-list", []string{"enum=" + e.coq}, nil)
}

// enumTexts: declared names of both types, their case variants (ASCII, the two
// non-ASCII characters whose lower case is ASCII: U+0130, U+212A; U+017F and
// U+0131, which fold / look alike but do not lower-case to ASCII), near misses.
var enumTexts = []string{"web", "user_agent", "native", "bearer", "JWT", "jwt", "Jwt", "jWT", "WEB", "Web", "wEb", "USER_AGENT", "User_Agent",
	"NATIVE", "Native", "BEARER", "Bearer", "natİve", "NATİVE", "natıve", "uſer_agent", "UſER_AGENT", "Keb", "beaKer",
	"", " ", "web ", " web", "we", "webb", "web\x00", "user-agent", "useragent", "user agent", "user_agent ", "0", "1", "2", "-1",
	"ApplicationType(0)", "ApplicationType(1)", "ApplicationType(3)", "AccessTokenType(0)", "AccessTokenType(2)", "applicationtype(0)",
	"bearer jwt", "jwt ", "JŴT", "opaque", "null", "true", "nat\xffive", "nätive", "NATIVEÄ"}

func (x *extState) enumParse(e enumOps, init int64, srcT string, srcTag string, run func() (int64, error)) {
	var v int64
	var err error
	p := drv.Catch(func() { v, err = run() })
	obs := "OPanic"
	if p == "" {
		obs = ext(emit.Ctor("YEnumParse", emit.Bool(err == nil), emit.Z(v)))
	}
	x.add(emit.Ctor("XEnumParse", e.coq, emit.Z(init), srcT), obs, "enum-parse", []string{"enum=" + e.coq, "via=" + srcTag}, nil)
}

func (x *extState) enumCases(thorough bool) {
	r := x.g.r
	dyns := func(s string) []dyn {
		return []dyn{{kind: "DStr", s: s}, {kind: "DBytes", s: s}, {kind: "DStringer", s: s}}
	}
	others := []dyn{{kind: "DNil"}, {kind: "DInt", z: 1}, {kind: "DInt", z: 0}, {kind: "DBool", b: true}, {kind: "DOther"}}
	jsonOthers := []any{nil, 0.0, 1.0, 2.0, true, false, []any{}, []any{"web"}, map[string]any{}, map[string]any{"web": 1.0}}
	for _, e := range enums {
		x.enumList(e)
		for _, n := range []int64{-2, -1, 0, 1, 2, 3, 4, 7, 255, 256, 1 << 31, -(1 << 31), 1<<62 + 12345, -(1 << 62)} {
			x.enumStr(e, n)
		}
		inits := []int64{0, 1, 2, 7}
		texts := append([]string{}, enumTexts...)
		extra := 6
		if thorough {
			extra = 200
		}
		for i := 0; i < extra; i++ {
			s := drv.Pick(r, enumTexts[:17])
			b := []byte(s)
			switch r.IntN(4) {
			case 0: // random ASCII case
				for j := range b {
					if r.Bool() {
						b[j] = strings.ToUpper(string(b[j]))[0]
					} else {
						b[j] = strings.ToLower(string(b[j]))[0]
					}
				}
			case 1: // one byte changed
				if len(b) > 0 {
					b[r.IntN(len(b))] = "abew_JT -"[r.IntN(9)]
				}
			case 2:
				b = append(b, " \x00x_"[r.IntN(4)])
			default:
				b = []byte(x.g.str())
			}
			texts = append(texts, string(b))
		}
		for _, s := range texts {
			init := drv.Pick(r, inits)
			x.enumParse(e, init, emit.Ctor("SName", emit.Str(s)), "name", func() (int64, error) { return e.parse(s) })
			x.enumParse(e, init, emit.Ctor("SText", emit.Str(s)), "text", func() (int64, error) { return e.unmText(init, []byte(s)) })
			x.enumParse(e, init, emit.Ctor("SYaml", "true", emit.Str(s)), "yaml", func() (int64, error) {
				return e.unmYAML(init, func(dst any) error { *(dst.(*string)) = s; return nil })
			})
			for _, d := range dyns(s) {
				d := d
				x.enumParse(e, init, emit.Ctor("SScan", d.term()), "scan-"+d.kind, func() (int64, error) { return e.scan(init, d.real()) })
				x.enumParse(e, init, emit.Ctor("SGql", d.term()), "gql-"+d.kind, func() (int64, error) { return e.unmGQL(init, d.real()) })
			}
			if utf8.ValidString(s) {
				x.enumParse(e, init, emit.Ctor("SJson", jterm(s)), "json-string", func() (int64, error) {
					b, _ := json.Marshal(s)
					return e.unmJSON(init, b)
				})
			}
		}
		for _, init := range inits {
			x.enumParse(e, init, emit.Ctor("SYaml", "false", emit.Str("web")), "yaml-error", func() (int64, error) {
				return e.unmYAML(init, func(any) error { return errors.New("cannot unmarshal !!seq into string") })
			})
			for _, d := range others {
				d := d
				x.enumParse(e, init, emit.Ctor("SScan", d.term()), "scan-"+d.kind, func() (int64, error) { return e.scan(init, d.real()) })
				x.enumParse(e, init, emit.Ctor("SGql", d.term()), "gql-"+d.kind, func() (int64, error) { return e.unmGQL(init, d.real()) })
			}
			for _, j := range jsonOthers {
				j := j
				x.enumParse(e, init, emit.Ctor("SJson", jterm(j)), "json-other", func() (int64, error) {
					b, _ := json.Marshal(j)
					return e.unmJSON(init, b)
				})
			}
		}
	}
}

// ---------- ConcatenateJSON ----------

type member struct {
	k string
	v any
}

func renderObj(ms []member) string {
	parts := make([]string, len(ms))
	for i, m := range ms {
		kb, _ := json.Marshal(m.k)
		vb, err := json.Marshal(m.v)
		if err != nil {
			panic(err)
		}
		parts[i] = string(kb) + ":" + string(vb)
	}
	return "{" + strings.Join(parts, ",") + "}"
}

func membersTerm(ms []member) string {
	items := make([]string, len(ms))
	for i, m := range ms {
		items[i] = emit.Pair(emit.Str(m.k), jterm(m.v))
	}
	return emit.List(items)
}

func (x *extState) genMembers() []member {
	g, r := x.g, x.g.r
	pool := []string{"a", "b", "iss", "sub", "aud", "exp", "x y", "ünï", "", "k\"q", "role", "scope"}
	n := drv.Pick(r, []int{0, 0, 1, 1, 2, 2, 3, 4})
	var ms []member
	seen := map[string]bool{}
	for len(ms) < n {
		k := drv.Pick(r, pool)
		if seen[k] {
			continue
		}
		seen[k] = true
		ms = append(ms, member{k, generic(g.jsonVal(1))})
	}
	return ms
}

func (x *extState) concat(a, b string, ma, mb []member, known bool, tag string) {
	r := x.g.r
	first := make([]byte, len(a), len(a)+drv.Pick(r, []int{0, 0, 1, 64}))
	copy(first, a)
	second := []byte(b)
	var out []byte
	var err error
	p := drv.Catch(func() { out, err = httphelper.ConcatenateJSON(first, second) })
	maT, mbT := emit.None, emit.None
	if known {
		maT, mbT = emit.Some(membersTerm(ma)), emit.Some(membersTerm(mb))
	}
	obs := "OPanic"
	if p == "" {
		outT, parsedT := emit.None, emit.None
		if err == nil {
			outT = emit.Some(emit.Str(string(out)))
			if known {
				if d, ok := parseDoc(out); ok {
					parsedT = emit.Some(jterm(d))
				}
			}
		}
		obs = ext(emit.Ctor("YConcat", outT, emit.Str(string(first)), parsedT))
	}
	x.add(emit.Ctor("XConcat", emit.Str(a), emit.Str(b), maT, mbT), obs, "concat", []string{"inputs=" + tag},
		map[string]any{"first": a, "second": b, "out": string(out)})
}

var concatMalformed = []string{"", "{", "}", "{}", "{ }", "{} ", " {}", "{\n}", "[]", "null", "x}", "}{", "{\"a\":1", "\"a\":1}", "{\"a\":1} ", " {\"a\":1}",
	"{\"a\":1}\n", "{\"a\": 1}", "{ \"a\":1 }", "[{}]", "\"}\"", "\"{\"", "{\"a\":1}{\"b\":2}", "{{", "}}"}

func (x *extState) concatCases(n int) {
	r := x.g.r
	for i := 0; i < n; i++ {
		ma, mb := x.genMembers(), x.genMembers()
		if r.Chance(1, 4) && len(ma) > 0 { // the second object re-uses keys of the first
			mb = nil
			for _, m := range ma {
				if r.Bool() {
					mb = append(mb, member{m.k, generic(x.g.jsonVal(1))})
				}
			}
		}
		tag := "objects"
		if len(ma) == 0 || len(mb) == 0 {
			tag = "objects-one-empty"
		}
		x.concat(renderObj(ma), renderObj(mb), ma, mb, true, tag)
	}
	for _, a := range concatMalformed {
		x.concat(a, "{\"b\":2}", nil, nil, false, "first-other")
		x.concat("{\"a\":1}", a, nil, nil, false, "second-other")
	}
	for i := 0; i < n/4; i++ {
		x.concat(drv.Pick(r, concatMalformed), drv.Pick(r, concatMalformed), nil, nil, false, "both-other")
	}
}

// ---------- all of it ----------

func extCases(w *emit.Writer, r drv.Rand, scale int, thorough bool) int {
	x := &extState{w: w, g: gen{r, &genState{}}}
	for i := 0; i < 40*scale; i++ {
		x.newLogout()
	}
	for i := 0; i < 40*scale; i++ {
		x.userInfo()
	}
	for _, intro := range []bool{false, true} {
		for i := 0; i < 3; i++ {
			x.getAddr(intro, i > 0)
		}
	}
	inits := [][]string{nil, {}, {"x"}, {"a", "b"}}
	for i, s := range scanTexts {
		for _, k := range []string{"DStr", "DBytes", "DStringer"} {
			x.sdaScan(inits[(i+len(k))%4], dyn{kind: k, s: s}, fmt.Sprint(i))
		}
	}
	x.sdaScan(nil, dyn{kind: "DStr", s: strings.Repeat("scope-word ", 400) + "end"}, "long")
	for _, init := range inits {
		for _, d := range []dyn{{kind: "DNil"}, {kind: "DInt", z: 5}, {kind: "DBool", b: true}, {kind: "DOther"}} {
			x.sdaScan(init, d, "none")
		}
	}
	for _, l := range [][]string{nil, {}, {""}, {"", ""}, {"a", ""}, {"", "a"}, {"openid"}, {"openid", "profile", "email"}, {"a b"}, {"a", "b c", "d"}, {" "}} {
		x.sdaValue(l, "fixed")
	}
	for i := 0; i < 20*scale; i++ {
		if r.Chance(1, 4) {
			x.sdaValue(x.g.strs(x.g.str), "any")
		} else {
			x.sdaValue(x.g.strs(x.g.word), "words")
		}
	}
	x.times()
	for i := 0; i < 20*scale; i++ {
		x.getters()
	}
	x.enumCases(thorough)
	x.concatCases(60 * scale)
	return x.clockAmbiguous
}
