// Codec half of the C12 driver: runs encoding/json on the REAL claim/response
// types of pkg/oidc and writes what happened in the vocabulary of
// coq/theories/C12_{Json,Codec,spec}.v.
package main

import (
	"encoding/json"
	"errors"
	"fmt"
	"io"
	"math"
	"math/big"
	"net/http"
	"reflect"
	"sort"
	"strconv"
	"strings"
	"time"

	"verifharness/drv"
	"verifharness/emit"

	httphelper "github.com/zitadel/oidc/v3/pkg/http"
	"github.com/zitadel/oidc/v3/pkg/oidc"
	"golang.org/x/text/language"
)

// ---------- JSON AST rendering (generic values as encoding/json decodes them) ----------

// numLit is a JSON number written with a chosen spelling (1.7e9, 17e8,
// 1700000000.0, -0 ...). It marshals as that literal. Its AST value is computed
// from the literal's mathematical value with math/big, independently of the
// library: z = the value truncated toward zero; frac = "" iff it is an integer.
type numLit string

func (n numLit) MarshalJSON() ([]byte, error) { return []byte(n), nil }

func (n numLit) term() string {
	r, ok := new(big.Rat).SetString(string(n))
	if !ok {
		panic("numLit: " + string(n))
	}
	z := new(big.Int).Quo(r.Num(), r.Denom()) // truncates toward zero
	if !z.IsInt64() {
		panic("numLit out of range: " + string(n))
	}
	frac := ""
	if !r.IsInt() {
		f, _ := strconv.ParseFloat(string(n), 64)
		frac = strconv.FormatFloat(f, 'g', -1, 64)
	}
	return emit.Ctor("JNum", emit.Z(z.Int64()), emit.Str(frac))
}

// strLit is a JSON string written with a chosen spelling (escapes \/ \uXXXX
// \" \\ surrogate pairs ...). It marshals as that literal; its AST value is the
// string it was spelled FROM (known by construction, no decoder involved).
type strLit struct {
	val string
	lit string
}

func (s strLit) MarshalJSON() ([]byte, error) { return []byte(s.lit), nil }

// escStr spells s as a JSON string literal, escaping each character with
// probability num/den where JSON leaves a choice.
func (g gen) escStr(s string, num, den int) strLit {
	var sb strings.Builder
	sb.WriteByte('"')
	for _, r := range s {
		esc := g.r.Chance(num, den)
		switch {
		case r == '"' || r == '\\':
			if esc {
				fmt.Fprintf(&sb, "\\u%04x", r)
			} else {
				sb.WriteByte('\\')
				sb.WriteRune(r)
			}
		case r < 0x20:
			short := map[rune]string{'\n': "\\n", '\t': "\\t", '\r': "\\r", '\b': "\\b", '\f': "\\f"}
			if sh, ok := short[r]; ok && !esc {
				sb.WriteString(sh)
			} else {
				fmt.Fprintf(&sb, "\\u%04X", r)
			}
		case r == '/' && esc:
			sb.WriteString("\\/")
		case esc && r < 0x10000:
			if g.r.Bool() {
				fmt.Fprintf(&sb, "\\u%04x", r)
			} else {
				fmt.Fprintf(&sb, "\\u%04X", r)
			}
		case esc:
			r -= 0x10000
			fmt.Fprintf(&sb, "\\u%04x\\u%04x", 0xd800+(r>>10), 0xdc00+(r&0x3ff))
		default:
			sb.WriteRune(r)
		}
	}
	sb.WriteByte('"')
	return strLit{s, sb.String()}
}

// maybeEsc: a third of the strings are written with escapes. The exact string
// "true" is left alone: oidc.Bool compares the raw bytes with `"true"`, so an
// escaped spelling reads false there (zero value; outside the AST, see notes).
func (g gen) maybeEsc(s string) any {
	if s == "true" || !g.r.Chance(1, 3) {
		return s
	}
	return g.escStr(s, 1, 2)
}

// tagStr: a BCP 47 candidate assembled from known and unknown subtags.
func (g gen) tagStr() string {
	if g.r.Chance(1, 5) {
		return drv.Pick(g.r, []string{"i-klingon", "en-GB-oed", "zh-min-nan", "x-private", "de-x-private", "art-lojban",
			"abcdefghi-DE", "de-abcdefghi", "en-US-u-co-phonebk", "de-DE-1996", "iw", "und-DE", "und", "EN-us", "en_US"})
	}
	t := drv.Pick(g.r, []string{"en", "de", "fr", "zh", "sr", "xyz", "zz", "qaa", "e"})
	if sc := drv.Pick(g.r, []string{"", "", "Latn", "Hant", "Abcd"}); sc != "" {
		t += "-" + sc
	}
	if rg := drv.Pick(g.r, []string{"", "DE", "CH", "US", "YY", "001", "999"}); rg != "" {
		t += "-" + rg
	}
	if va := drv.Pick(g.r, []string{"", "", "", "geneva", "1996", "abcde"}); va != "" {
		t += "-" + va
	}
	return t
}

// spell writes the integer t in one of the JSON spellings of that number.
func (g gen) spell(t int64) (numLit, string) {
	plain := strconv.FormatInt(t, 10)
	sign, digits := "", plain
	if t < 0 {
		sign, digits = "-", plain[1:]
	}
	e := drv.Pick(g.r, []string{"e", "E", "e+", "E+"})
	if t == 0 {
		z := drv.Pick(g.r, []string{"0", "-0", "0.0", "0e5", "0.00E+2"})
		return numLit(z), "zero"
	}
	if len(digits) < 2 {
		return numLit(drv.Pick(g.r, []string{plain, plain + ".0", plain + "e0", plain + "0e-1"})), "one-digit"
	}
	switch g.r.IntN(7) {
	case 0:
		return numLit(plain), "int"
	case 1:
		return numLit(plain + drv.Pick(g.r, []string{".0", ".000"})), "point-zero"
	case 2: // exponent without fraction: 17e8
		d := strings.TrimRight(digits, "0")
		if d == "" {
			return numLit(sign + "0" + e + "0"), "exp-zero"
		}
		return numLit(sign + d + e + strconv.Itoa(len(digits)-len(d))), "exp"
	case 3, 4: // fraction and exponent: 1.7e9
		p := 1 + g.r.IntN(len(digits))
		fr := strings.TrimRight(digits[p:], "0")
		if g.r.Chance(1, 4) {
			fr = digits[p:]
		}
		m := digits[:p]
		if fr != "" {
			m += "." + fr
		}
		return numLit(sign + m + e + strconv.Itoa(len(digits)-p)), "frac-exp"
	case 5: // negative exponent: 17000000000e-1
		k := 1 + g.r.IntN(3)
		return numLit(sign + digits + strings.Repeat("0", k) + "e-" + strconv.Itoa(k)), "neg-exp"
	default: // scaled up with a decimal point: 170000000.00e1
		return numLit(sign + digits[:len(digits)-len(digits)/2] + "." + digits[len(digits)-len(digits)/2:] + "e" + strconv.Itoa(len(digits)/2)), "point-exp"
	}
}

// fractional: a non-integral number near t in several spellings.
func (g gen) fractional(t int64) numLit {
	if t > 1<<40 || t < -(1<<40) { // keep float64 able to tell the value from an integer
		t = base
	}
	plain := strconv.FormatInt(t, 10)
	switch g.r.IntN(3) {
	case 0:
		return numLit(plain + drv.Pick(g.r, []string{".5", ".25", ".999"}))
	case 1:
		return numLit(plain + ".5e0")
	default:
		if t > 9 {
			return numLit(plain[:1] + "." + plain[1:] + "1e" + strconv.Itoa(len(plain)-1))
		}
		return numLit(plain + ".125")
	}
}

func jterm(v any) string {
	switch x := v.(type) {
	case numLit:
		return x.term()
	case strLit:
		return emit.Ctor("JStr", emit.Str(x.val))
	case nil:
		return "JNull"
	case bool:
		return emit.Ctor("JBool", emit.Bool(x))
	case float64:
		frac := ""
		if x != math.Trunc(x) {
			frac = strconv.FormatFloat(x, 'g', -1, 64)
		}
		return emit.Ctor("JNum", emit.Z(int64(x)), emit.Str(frac))
	case string:
		return emit.Ctor("JStr", emit.Str(x))
	case []any:
		items := make([]string, len(x))
		for i, e := range x {
			items[i] = jterm(e)
		}
		return emit.Ctor("JArr", emit.List(items))
	case map[string]any:
		return emit.Ctor("JObj", objterm(x))
	}
	panic(fmt.Sprintf("jterm: not a generic JSON value: %T", v))
}

func objterm(m map[string]any) string {
	ks := make([]string, 0, len(m))
	for k := range m {
		ks = append(ks, k)
	}
	sort.Strings(ks)
	items := make([]string, len(ks))
	for i, k := range ks {
		items[i] = emit.Pair(emit.Str(k), jterm(m[k]))
	}
	return emit.List(items)
}

// generic normalises a DRIVER-side value (Go natives, numLit, strLit, actorRef:
// never a library type) to the generic JSON form. A failure here is a bug of
// the driver, not an outcome of the library.
func generic(v any) any {
	b, err := json.Marshal(v)
	if err != nil {
		panic(err)
	}
	var out any
	if err := json.Unmarshal(b, &out); err != nil {
		panic(err)
	}
	return out
}

func genericObj(m map[string]any) map[string]any {
	if len(m) == 0 {
		return map[string]any{}
	}
	return generic(m).(map[string]any)
}

// ---------- schema by reflection over the struct tags ----------

type fieldInfo struct {
	Name  string
	Kind  string
	Omit  bool
	Index []int
}

var (
	tTime    = reflect.TypeOf(oidc.Time(0))
	tAud     = reflect.TypeOf(oidc.Audience{})
	tSDA     = reflect.TypeOf(oidc.SpaceDelimitedArray{})
	tBoolS   = reflect.TypeOf(oidc.Bool(false))
	tLocale  = reflect.TypeOf((*oidc.Locale)(nil))
	tActor   = reflect.TypeOf((*oidc.ActorClaims)(nil))
	tAddr    = reflect.TypeOf((*oidc.UserInfoAddress)(nil))
	tStrs    = reflect.TypeOf([]string{})
	tMap     = reflect.TypeOf(map[string]any{})
	tLocales = reflect.TypeOf(oidc.Locales{})
)

func kindOf(t reflect.Type) string {
	switch {
	case t == tTime:
		return "KTime"
	case t == tAud:
		return "KAud"
	case t == tSDA:
		return "KSDA"
	case t == tBoolS:
		return "KBoolS"
	case t == tLocale:
		return "KLocale"
	case t == tActor:
		return "KActor"
	case t == tAddr:
		return "KAddr"
	case t == tStrs:
		return "KStrs"
	case t == tMap:
		return "KMap"
	case t.Kind() == reflect.String:
		return "KStr"
	case t.Kind() == reflect.Bool:
		return "KBool"
	}
	return ""
}

// deriveSchema lists the fields encoding/json sees (declaration order, embedded
// structs expanded, shallower field shadows deeper one of the same name; of
// several at the least depth the single tagged one, else none). A member whose
// type the model has no kind for is not a reason to stop: it is reported in
// `unknown` (the schema case then differs from the model's schema) and left at
// its zero value in the generated values.
func deriveSchema(t reflect.Type) (out []fieldInfo, unknown []string) {
	type cand struct {
		fieldInfo
		depth  int
		tagged bool
	}
	var all []cand
	var walk func(t reflect.Type, prefix []int, depth int)
	walk = func(t reflect.Type, prefix []int, depth int) {
		for i := 0; i < t.NumField(); i++ {
			f := t.Field(i)
			idx := append(append([]int{}, prefix...), i)
			tag := f.Tag.Get("json")
			if tag == "-" {
				continue
			}
			if f.Anonymous && tag == "" && f.Type.Kind() == reflect.Struct {
				walk(f.Type, idx, depth+1)
				continue
			}
			if !f.IsExported() {
				continue
			}
			name, opts, _ := strings.Cut(tag, ",")
			if name == "" {
				name = f.Name
			}
			all = append(all, cand{fieldInfo{name, kindOf(f.Type), strings.Contains(","+opts+",", ",omitempty,"), idx}, depth, tag != "" && tag[0] != ','})
			if all[len(all)-1].Kind == "" {
				all[len(all)-1].Kind = "?" + f.Type.String()
			}
		}
	}
	walk(t, nil, 0)
	min := map[string]int{}
	cnt := map[string]int{}
	cntTagged := map[string]int{}
	for _, c := range all {
		if d, ok := min[c.Name]; !ok || c.depth < d {
			min[c.Name] = c.depth
			cnt[c.Name], cntTagged[c.Name] = 0, 0
		}
		if c.depth == min[c.Name] {
			cnt[c.Name]++
			if c.tagged {
				cntTagged[c.Name]++
			}
		}
	}
	for _, c := range all {
		if c.depth != min[c.Name] {
			continue
		}
		if cnt[c.Name] > 1 && !(c.tagged && cntTagged[c.Name] == 1) {
			if cntTagged[c.Name] != 1 {
				unknown = append(unknown, c.Name+" (ambiguous: encoding/json drops it)")
			}
			continue
		}
		if strings.HasPrefix(c.Kind, "?") {
			unknown = append(unknown, c.Name+" "+c.Kind[1:])
			continue
		}
		out = append(out, c.fieldInfo)
	}
	return out, unknown
}

type tyInfo struct {
	Coq     string
	Type    reflect.Type
	Schema  []fieldInfo
	Unknown []string
}

var types = []tyInfo{
	{Coq: "TID", Type: reflect.TypeOf(oidc.IDTokenClaims{})},
	{Coq: "TAT", Type: reflect.TypeOf(oidc.AccessTokenClaims{})},
	{Coq: "TLogout", Type: reflect.TypeOf(oidc.LogoutTokenClaims{})},
	{Coq: "TUserInfo", Type: reflect.TypeOf(oidc.UserInfo{})},
	{Coq: "TIntro", Type: reflect.TypeOf(oidc.IntrospectionResponse{})},
	{Coq: "TJPA", Type: reflect.TypeOf(oidc.JWTProfileAssertionClaims{})},
	{Coq: "TJTR", Type: reflect.TypeOf(oidc.JWTTokenRequest{})},
	{Coq: "TActor", Type: reflect.TypeOf(oidc.ActorClaims{})},
}

func getClaims(p reflect.Value) map[string]any {
	if j, ok := p.Interface().(*oidc.JWTTokenRequest); ok {
		return oidc.VerifJWTTokenRequestPrivate(j)
	}
	return p.Elem().FieldByName("Claims").Interface().(map[string]any)
}

func setClaims(p reflect.Value, m map[string]any) {
	if j, ok := p.Interface().(*oidc.JWTTokenRequest); ok {
		oidc.VerifSetJWTTokenRequestPrivate(j, m)
		return
	}
	p.Elem().FieldByName("Claims").Set(reflect.ValueOf(m))
}

func hasTag(tags []string, t string) bool {
	for _, x := range tags {
		if x == t {
			return true
		}
	}
	return false
}

// ---------- model-side values ----------

// actorV is the model-side actor. The real *oidc.ActorClaims built from it is
// memoised, so an actorV that is referenced from two places (two depths of a
// value's custom maps, two values) is ONE real object referenced twice.
// claims may hold actorRef values (only to plain actors, never up the chain:
// the object graph stays acyclic); the same map may be shared by several actors.
type actorV struct {
	act      *actorV
	iss, sub string
	claims   map[string]any
	plain    bool // no custom key (of this actor or below) folds onto act / iss / sub
	real     *oidc.ActorClaims
}

// actorRef is a custom-claim value that is a *oidc.ActorClaims on the real side
// ("may_act": actor). On the model side custom claims are JSON: the reference
// renders as the object a plain actor denotes, written by the driver itself
// (custom entries, plus act / iss / sub when set) without the library.
type actorRef struct{ a *actorV }

// libVal is a custom-claim value of one of the library's own member types
// (oidc.Time, oidc.Audience, oidc.SpaceDelimitedArray, *oidc.Locale): callers
// do put those into Claims maps. `model` is the JSON it denotes, stated by the
// driver from the type's documented form (number, array, space-joined string,
// tag text).
type libVal struct{ real, model any }

func (l libVal) MarshalJSON() ([]byte, error) { return json.Marshal(l.model) }

// newLocale: oidc.NewLocale; should it panic, the value is a nil pointer (which
// the model does not expect: the case then reports the difference).
func newLocale(t language.Tag) (l *oidc.Locale) {
	drv.Catch(func() { l = oidc.NewLocale(t) })
	return l
}

// longStr: n bytes whose content depends on the position (a cut, a shift or a
// repeated block shows).
func longStr(n int) string {
	var sb strings.Builder
	for i := 0; sb.Len() < n; i++ {
		fmt.Fprintf(&sb, "%d.", i)
	}
	return sb.String()[:n]
}

func plainActorJSON(a *actorV) map[string]any {
	if !a.plain {
		panic("actorRef to an actor that is not plain")
	}
	m := map[string]any{}
	for k, v := range a.claims {
		m[k] = v
	}
	if a.act != nil {
		m["act"] = actorRef{a.act}
	}
	if a.iss != "" {
		m["iss"] = a.iss
	}
	if a.sub != "" {
		m["sub"] = a.sub
	}
	return m
}

func (r actorRef) MarshalJSON() ([]byte, error) { return json.Marshal(plainActorJSON(r.a)) }

// realVal / realClaims: the custom values handed to the library (actorRef ->
// the memoised real pointer). A map without references is passed as it is, so
// a map shared on the model side is shared on the real side.
func realVal(v any) (any, bool) {
	switch x := v.(type) {
	case actorRef:
		return toRealActor(x.a), true
	case libVal:
		return x.real, true
	case []any:
		out, ch := make([]any, len(x)), false
		for i, e := range x {
			var c bool
			out[i], c = realVal(e)
			ch = ch || c
		}
		if ch {
			return out, true
		}
	}
	return v, false
}

func realClaims(m map[string]any) map[string]any {
	var out map[string]any
	for k, v := range m {
		if rv, ch := realVal(v); ch {
			if out == nil {
				out = make(map[string]any, len(m))
				for k2, v2 := range m {
					out[k2] = v2
				}
			}
			out[k] = rv
		}
	}
	if out == nil {
		return m
	}
	return out
}

func (a *actorV) depth() int {
	d := 0
	for x := a.act; x != nil; x = x.act {
		d++
	}
	return d
}

// repeats: the same party (iss, sub) at two depths of the chain.
func (a *actorV) repeats() bool {
	seen := map[[2]string]bool{}
	for x := a; x != nil; x = x.act {
		k := [2]string{x.iss, x.sub}
		if seen[k] {
			return true
		}
		seen[k] = true
	}
	return false
}

type fv struct {
	kind string
	s    string
	z    int64
	strs []string // nil = None
	b    bool
	loc  *string
	act  *actorV
	addr *[6]string // formatted street locality region postal country
	m    map[string]any
}

func actorTerm(a *actorV) string {
	if a == nil {
		return emit.None
	}
	return emit.Some(emit.Ctor("Actor", actorTerm(a.act), emit.Str(a.iss), emit.Str(a.sub), objterm(genericObj(a.claims))))
}

func (v fv) term() string {
	switch v.kind {
	case "KStr":
		return emit.Ctor("VStr", emit.Str(v.s))
	case "KTime":
		return emit.Ctor("VTime", emit.Z(v.z))
	case "KAud", "KStrs", "KSDA", "KLocales":
		if v.strs == nil {
			return "(VStrs None)"
		}
		return emit.Ctor("VStrs", emit.Some(emit.StrList(v.strs)))
	case "KBool", "KBoolS":
		return emit.Ctor("VBool", emit.Bool(v.b))
	case "KLocale":
		return emit.Ctor("VLocale", emit.OptStr(v.loc))
	case "KActor":
		return emit.Ctor("VActor", actorTerm(v.act))
	case "KAddr":
		if v.addr == nil {
			return "(VAddr None)"
		}
		a := v.addr
		return emit.Ctor("VAddr", emit.Some(emit.Ctor("Addr", emit.Str(a[0]), emit.Str(a[1]), emit.Str(a[2]), emit.Str(a[3]), emit.Str(a[4]), emit.Str(a[5]))))
	case "KMap":
		return emit.Ctor("VMap", objterm(genericObj(v.m)))
	}
	panic("fv.term: " + v.kind)
}

func valsTerm(vs []fv) string {
	items := make([]string, len(vs))
	for i, v := range vs {
		items[i] = v.term()
	}
	return emit.List(items)
}

func toRealActor(a *actorV) *oidc.ActorClaims {
	if a == nil {
		return nil
	}
	if a.real == nil {
		a.real = &oidc.ActorClaims{Actor: toRealActor(a.act), Issuer: a.iss, Subject: a.sub, Claims: realClaims(a.claims)}
	}
	return a.real
}

func fromRealActor(a *oidc.ActorClaims) *actorV {
	if a == nil {
		return nil
	}
	return &actorV{act: fromRealActor(a.Actor), iss: a.Issuer, sub: a.Subject, claims: a.Claims}
}

func tagText(t language.Tag) string {
	if t.IsRoot() {
		return "und"
	}
	return t.String()
}

// set writes v into the real struct field.
func (v fv) set(f reflect.Value) {
	switch v.kind {
	case "KStr":
		f.SetString(v.s)
	case "KTime":
		f.SetInt(v.z)
	case "KAud", "KStrs", "KSDA":
		if v.strs == nil {
			f.Set(reflect.Zero(f.Type()))
		} else {
			s := reflect.MakeSlice(f.Type(), len(v.strs), len(v.strs))
			for i, x := range v.strs {
				s.Index(i).SetString(x)
			}
			f.Set(s)
		}
	case "KBool", "KBoolS":
		f.SetBool(v.b)
	case "KLocale":
		if v.loc == nil {
			f.Set(reflect.Zero(f.Type()))
		} else if *v.loc == "und" {
			f.Set(reflect.ValueOf(oidc.NewLocale(language.Und)))
		} else {
			f.Set(reflect.ValueOf(oidc.NewLocale(language.MustParse(*v.loc))))
		}
	case "KActor":
		f.Set(reflect.ValueOf(toRealActor(v.act)))
	case "KAddr":
		if v.addr == nil {
			f.Set(reflect.Zero(f.Type()))
		} else {
			a := v.addr
			f.Set(reflect.ValueOf(&oidc.UserInfoAddress{Formatted: a[0], StreetAddress: a[1], Locality: a[2], Region: a[3], PostalCode: a[4], Country: a[5]}))
		}
	case "KMap":
		f.Set(reflect.ValueOf(v.m))
	default:
		panic("set: " + v.kind)
	}
}

// get projects the real struct field to the model value.
func get(kind string, f reflect.Value) fv {
	v := fv{kind: kind}
	switch kind {
	case "KStr":
		v.s = f.String()
	case "KTime":
		v.z = f.Int()
	case "KAud", "KStrs", "KSDA":
		if !f.IsNil() {
			v.strs = make([]string, f.Len())
			for i := range v.strs {
				v.strs[i] = f.Index(i).String()
			}
		}
	case "KLocales":
		if !f.IsNil() {
			v.strs = make([]string, f.Len())
			for i := range v.strs {
				v.strs[i] = tagText(f.Index(i).Interface().(language.Tag))
			}
		}
	case "KBool", "KBoolS":
		v.b = f.Bool()
	case "KLocale":
		if !f.IsNil() {
			s := tagText(f.Interface().(*oidc.Locale).Tag())
			v.loc = &s
		}
	case "KActor":
		v.act = fromRealActor(f.Interface().(*oidc.ActorClaims))
	case "KAddr":
		if !f.IsNil() {
			a := f.Interface().(*oidc.UserInfoAddress)
			v.addr = &[6]string{a.Formatted, a.StreetAddress, a.Locality, a.Region, a.PostalCode, a.Country}
		}
	case "KMap":
		v.m = f.Interface().(map[string]any)
	default:
		panic("get: " + kind)
	}
	return v
}

func project(ti tyInfo, p reflect.Value) ([]fv, map[string]any) {
	vs := make([]fv, len(ti.Schema))
	for i, f := range ti.Schema {
		vs[i] = get(f.Kind, p.Elem().FieldByIndex(f.Index))
	}
	return vs, getClaims(p)
}

func decTerm(vs []fv, cl map[string]any) string {
	return emit.Pair(valsTerm(vs), objterm(genericObj(cl)))
}

// ---------- oracle tables ----------

type oracles struct {
	rfc, lt, lp map[string]string
}

func newOracles() *oracles {
	return &oracles{map[string]string{}, map[string]string{}, map[string]string{}}
}

func lres(tag language.Tag, err error) string {
	if err == nil {
		return emit.Ctor("LOk", emit.Str(tagText(tag)))
	}
	var ve language.ValueError
	if errors.As(err, &ve) {
		return "LVal"
	}
	return "LSyn"
}

func (o *oracles) addString(s string) {
	if _, ok := o.rfc[s]; !ok {
		if tt, err := time.Parse(time.RFC3339, s); err == nil {
			// the documented reading, stated without the library: Unix seconds of
			// the instant; Go's zero time (0001-01-01T00:00:00Z) is the unset Time 0
			z := tt.Unix()
			if tt.IsZero() {
				z = 0
			}
			o.rfc[s] = emit.Some(emit.Z(z))
		}
	}
	if _, ok := o.lt[s]; !ok {
		var t language.Tag
		err := t.UnmarshalText([]byte(s))
		if r := lres(t, err); r != "LSyn" {
			o.lt[s] = r
		}
	}
	for _, p := range append(strings.Split(s, " "), s) {
		if _, ok := o.lp[p]; !ok {
			t, err := language.Parse(p)
			if r := lres(t, err); r != "LSyn" {
				o.lp[p] = r
			}
		}
	}
}

// addDoc registers every string that a time/locale decoder can be handed:
// top-level members and elements of top-level arrays.
func (o *oracles) addDoc(doc any) {
	visit := func(v any) {
		switch x := v.(type) {
		case string:
			o.addString(x)
		case strLit:
			o.addString(x.val)
		case []any:
			for _, e := range x {
				switch s := e.(type) {
				case string:
					o.addString(s)
				case strLit:
					o.addString(s.val)
				}
			}
		}
	}
	visit(doc)
	if m, ok := doc.(map[string]any); ok {
		for _, v := range m {
			visit(v)
		}
	}
}

func tableTerm(m map[string]string) string {
	ks := make([]string, 0, len(m))
	for k := range m {
		ks = append(ks, k)
	}
	sort.Strings(ks)
	items := make([]string, len(ks))
	for i, k := range ks {
		items[i] = emit.Pair(emit.Str(k), m[k])
	}
	return emit.List(items)
}

func (o *oracles) term() string {
	return emit.Ctor("O", tableTerm(o.rfc), tableTerm(o.lt), tableTerm(o.lp))
}

// ---------- generators ----------

// genState: what one generated value leaves behind for the next ones (an actor
// object that a later value references again) and the input-class tags the
// member generators want on the case.
type genState struct {
	prev *actorV
	tags []string
}

type gen struct {
	r  drv.Rand
	st *genState
}

func (g gen) note(tag string) {
	if !hasTag(g.st.tags, tag) {
		g.st.tags = append(g.st.tags, tag)
	}
}

var strPool = []string{"", "a", "alice", "https://issuer.example.com", "client-1", "user:42", "a b", " lead", "trail ",
	"true", "false", "null", "0", "x\"y\\z", "<script>", "ünï©ode", "日本", "\U0001F600 ok", "https://rp.example/cb?a=1&b=2", "2023-01-02T03:04:05Z", "en", "openid", "e\tf"}

func (g gen) str() string {
	switch g.r.IntN(4) {
	case 0:
		b := make([]byte, 1+g.r.IntN(8))
		for i := range b {
			b[i] = "abcdefghijklmnopqrstuvwxyzABCXYZ0123456789-_.:/"[g.r.IntN(47)]
		}
		return string(b)
	default:
		return drv.Pick(g.r, strPool)
	}
}

func (g gen) nonEmptyStr() string {
	for {
		if s := g.str(); s != "" {
			return s
		}
	}
}

func (g gen) word() string { // non-empty, no spaces
	w := []string{"openid", "profile", "email", "offline_access", "urn:x:y", "a", "read:all", "ünï", "s-1"}
	return drv.Pick(g.r, w)
}

var base = int64(1700000000)

func (g gen) timeVal() int64 {
	switch g.r.IntN(8) {
	case 0:
		return 0
	case 1:
		return int64(g.r.IntN(10)) - 3
	case 2:
		return drv.Pick(g.r, []int64{1 << 53, -(1 << 53), 1<<53 - 1, 253402300799, -62135596800})
	default:
		return base + drv.Pick(g.r, []int64{-3601, -3600, -2, -1, 0, 1, 2, 3599, 3600, 86400}) + int64(g.r.IntN(3))
	}
}

func (g gen) strs(elem func() string) []string {
	switch g.r.IntN(6) {
	case 0:
		return nil
	case 1:
		return []string{}
	case 2:
		return []string{elem()}
	default:
		n := 2 + g.r.IntN(3)
		out := make([]string, n)
		for i := range out {
			out[i] = elem()
		}
		return out
	}
}

var localePool = []string{"und", "en", "de", "de-CH", "fr-FR", "en-US", "zh-Hant", "pt-BR", "sr-Latn-RS", "nl"}

// jsonVal: a random generic JSON value (numbers are integers within +-2^53 or
// short binary fractions, strings are valid UTF-8).
func (g gen) jsonVal(depth int) any {
	n := 9
	if depth <= 0 {
		n = 6
	}
	switch g.r.IntN(n) {
	case 0:
		return nil
	case 1:
		return g.r.Bool()
	case 2:
		if g.r.Bool() {
			n, _ := g.spell(g.timeVal())
			return n
		}
		return float64(g.timeVal())
	case 3:
		return drv.Pick(g.r, []float64{1.5, -0.25, 0, 1, -1, 3.125, 1e15, 9007199254740992})
	case 4, 5:
		return g.maybeEsc(g.str())
	case 6:
		a := make([]any, g.r.IntN(4))
		for i := range a {
			a[i] = g.jsonVal(depth - 1)
		}
		return a
	default:
		m := map[string]any{}
		for i := g.r.IntN(4); i > 0; i-- {
			m[g.key()] = g.jsonVal(depth - 1)
		}
		return m
	}
}

func (g gen) key() string {
	if g.r.Chance(1, 6) {
		return drv.Pick(g.r, wireKeys)
	}
	return drv.Pick(g.r, []string{"role", "groups", "tenant", "urn:zitadel:iam:org", "x", "", "a b", "Z", "zz", "iss_", "custom.claim", "ünï", "n"})
}

// nativeVal: custom-claim values as callers really write them (Go natives
// that encoding/json turns into the generic forms).
func (g gen) customVal() any {
	if g.r.Chance(1, 10) {
		switch g.r.IntN(4) {
		case 0:
			t := g.timeVal()
			return libVal{oidc.Time(t), float64(t)}
		case 1:
			ws := []string{g.word(), g.word(), g.word()}[:g.r.IntN(4)]
			return libVal{oidc.SpaceDelimitedArray(ws), strings.Join(ws, " ")}
		case 2:
			au := []string{g.str(), g.str()}[:1+g.r.IntN(2)]
			return libVal{oidc.Audience(au), au}
		default:
			t := drv.Pick(g.r, localePool)
			if t == "und" {
				return libVal{newLocale(language.Und), nil}
			}
			return libVal{newLocale(language.MustParse(t)), t}
		}
	}
	switch g.r.IntN(8) {
	case 0:
		return g.r.IntN(100000)
	case 1:
		return []string{g.str(), g.str()}
	case 2:
		return map[string]string{g.key(): g.str()}
	case 3:
		return int64(g.timeVal())
	default:
		return g.jsonVal(2)
	}
}

// typedJSON: a JSON value of the form the member kind reads (so that a custom
// claim that collides with an unset member decodes), or junk.
func (g gen) typedJSON(kind string) any {
	if g.r.Chance(1, 5) {
		return g.jsonVal(1)
	}
	switch kind {
	case "KStr":
		return g.maybeEsc(g.nonEmptyStr())
	case "KTime":
		if g.r.Chance(1, 4) {
			return g.maybeEsc(drv.Pick(g.r, rfcPool))
		}
		if g.r.Chance(1, 6) {
			return g.fractional(g.timeVal())
		}
		n, _ := g.spell(g.timeVal())
		return n
	case "KAud":
		if g.r.Bool() {
			return g.maybeEsc(g.str())
		}
		return g.anyStrs(g.strs(g.str))
	case "KStrs":
		return g.anyStrs(g.strs(g.str))
	case "KSDA":
		return g.maybeEsc(strings.Join(g.strs(g.word), " "))
	case "KBool":
		return g.r.Bool()
	case "KBoolS":
		return drv.Pick(g.r, []any{true, false, "true", "false"})
	case "KLocale":
		if g.r.Bool() {
			return g.maybeEsc(g.tagStr())
		}
		return g.maybeEsc(drv.Pick(g.r, localePool))
	case "KLocales":
		if g.r.Bool() {
			return g.maybeEsc(strings.Join(g.strs(g.tagStr), " "))
		}
		return g.anyStrs(g.strs(g.tagStr))
	case "KActor":
		return g.actorDoc(g.r.IntN(3))
	case "KAddr":
		return map[string]any{"country": g.str(), "locality": g.str(), "zip": g.str()}
	case "KMap":
		return map[string]any{g.key(): g.jsonVal(1)}
	}
	return nil
}

func (g gen) anyStrs(s []string) any {
	if s == nil {
		return nil
	}
	out := make([]any, len(s))
	for i, x := range s {
		out[i] = g.maybeEsc(x)
	}
	return out
}

var rfcPool = []string{"2023-01-02T03:04:05Z", "2023-11-14T22:13:20+02:00", "1970-01-01T00:00:00Z", "0001-01-01T00:00:00Z",
	"2023-01-02T03:04:05.999Z", "2023-01-02 03:04:05Z", "2023-13-02T03:04:05Z", "9999-12-31T23:59:59Z", "1969-12-31T23:59:59-00:00"}

// parties of delegation chains (RFC 8693 section 4.1): few enough that the
// same party turns up at several depths; (iss, sub) pairs that differ in one
// component only; empty components.
var partyPool = [][2]string{
	{"https://issuer.example.com", "svc-a"}, {"https://issuer.example.com", "svc-b"}, {"https://sts.example", "svc-a"},
	{"", "svc-a"}, {"", "svc-b"}, {"https://issuer.example.com", ""}, {"", ""}, {"https://issuer.example.com", "user:42"},
	{"a", "b"}, {"b", "a"}, {"https://issuer.example.com", "SVC-A"}, {"https://issuer.example.com/", "svc-a"},
}

func (g gen) plainClaims() map[string]any {
	switch g.r.IntN(4) {
	case 0:
		return nil
	case 1:
		return map[string]any{}
	}
	m := map[string]any{}
	for i := 1 + g.r.IntN(3); i > 0; i-- {
		m[g.key()] = g.customVal()
	}
	return m
}

func copyClaims(m map[string]any) map[string]any {
	if m == nil {
		return nil
	}
	out := make(map[string]any, len(m))
	for k, v := range m {
		out[k] = v
	}
	return out
}

// link makes a chain of the levels (outermost first).
func link(levels []*actorV) *actorV {
	for i := len(levels) - 1; i >= 0; i-- {
		levels[i].plain = true
		if i+1 < len(levels) {
			levels[i].act = levels[i+1]
		}
	}
	return levels[0]
}

// chain: a plain delegation chain of 1..5 actors (nesting depth 0..4) over a
// small set of parties. Shapes: independent picks from 1-3 parties (repeats at
// different depths are the rule), strict alternation a -> b -> a ..., the same
// party at every depth, a sub-chain followed by a copy of itself (identical
// sub-chains, distinct objects). Dimensions on top: every level its own custom
// map / equal maps / ONE map object shared by several levels; a level whose
// custom map references a deeper actor of the same chain (the same
// *ActorClaims reachable on two paths, no cycle).
func (g gen) chain() *actorV {
	n := 1 + g.r.IntN(5)
	perm := g.r.Perm(len(partyPool))
	ps := make([][2]string, 1+g.r.IntN(3))
	for i := range ps {
		ps[i] = partyPool[perm[i]]
	}
	levels := make([]*actorV, n)
	shape := drv.Pick(g.r, []string{"pick", "pick", "alternate", "same", "subchain"})
	for i := range levels {
		var p [2]string
		switch shape {
		case "alternate":
			p = ps[i%min(2, len(ps))]
			if len(ps) == 1 && i%2 == 1 {
				p = partyPool[perm[len(perm)-1]]
			}
		case "same":
			p = ps[0]
		default:
			p = drv.Pick(g.r, ps)
		}
		levels[i] = &actorV{iss: p[0], sub: p[1]}
	}
	maps := drv.Pick(g.r, []string{"own", "own", "equal", "shared"})
	var common map[string]any
	if maps != "own" {
		common = g.plainClaims()
	}
	for _, l := range levels {
		switch {
		case maps == "own" || (maps == "shared" && g.r.Chance(1, 3)):
			l.claims = g.plainClaims()
		case maps == "equal":
			l.claims = copyClaims(common)
		default:
			l.claims = common
		}
	}
	if shape == "subchain" && n >= 2 { // X ++ X by content
		h := n / 2
		for i := 0; i < h; i++ {
			levels[h+i].iss, levels[h+i].sub = levels[i].iss, levels[i].sub
			levels[h+i].claims = copyClaims(levels[i].claims)
		}
	}
	a := link(levels)
	if n >= 2 && g.r.Chance(1, 3) { // a shallower level references a deeper actor
		i := g.r.IntN(n - 1)
		j := i + 1 + g.r.IntN(n-1-i)
		c := copyClaims(levels[i].claims) // its own map from here on (a shared one would reach upwards)
		if c == nil {
			c = map[string]any{}
		}
		if g.r.Chance(1, 4) {
			c[drv.Pick(g.r, []string{"chain", "actors"})] = []any{actorRef{levels[j]}, actorRef{levels[n-1]}}
		} else {
			c[drv.Pick(g.r, []string{"may_act", "origin", "prev", "x"})] = actorRef{levels[j]}
		}
		levels[i].claims = c
		g.note("actshare=ptr-in-chain")
	}
	g.note("actshape=" + shape)
	if maps != "own" {
		g.note("actmaps=" + maps)
	}
	return a
}

// actorDoc: the JSON object of an actor chain, written by the driver (no
// library involved): parties as in chain(), members sometimes absent, null or
// of another type.
func (g gen) actorDoc(depth int) map[string]any {
	ps := [][2]string{drv.Pick(g.r, partyPool), drv.Pick(g.r, partyPool)}
	var mk func(d int) map[string]any
	mk = func(d int) map[string]any {
		m := map[string]any{}
		for i := g.r.IntN(3); i > 0; i-- {
			m[g.key()] = g.jsonVal(1)
		}
		p := drv.Pick(g.r, ps)
		for i, k := range []string{"iss", "sub"} {
			switch {
			case g.r.Chance(1, 12):
				m[k] = g.jsonVal(1)
			case p[i] != "" || g.r.Chance(1, 4):
				m[k] = g.maybeEsc(p[i])
			}
		}
		switch {
		case d > 0:
			m["act"] = mk(d - 1)
		case g.r.Chance(1, 6):
			m["act"] = drv.Pick(g.r, []any{nil, 5.0, "x", []any{}, map[string]any{}})
		}
		return m
	}
	return mk(depth)
}

// actor: free-form nested actor: arbitrary iss / sub, custom keys that collide
// with act / iss / sub (typed or junk values).
func (g gen) actor(depth int) *actorV {
	a := &actorV{}
	if g.r.Bool() {
		a.iss = g.str()
	}
	if g.r.Chance(2, 3) {
		a.sub = g.str()
	}
	if depth > 0 && g.r.Chance(3, 4) {
		a.act = g.actor(depth - 1)
	}
	switch g.r.IntN(4) {
	case 0: // nil
	case 1:
		a.claims = map[string]any{}
	default:
		a.claims = map[string]any{}
		for i := 1 + g.r.IntN(3); i > 0; i-- {
			a.claims[g.key()] = g.customVal()
		}
		if g.r.Chance(1, 3) {
			k := drv.Pick(g.r, []string{"iss", "sub", "act"})
			kind := "KStr"
			if k == "act" {
				kind = "KActor"
			}
			a.claims[k] = g.typedJSON(kind)
		}
	}
	return a
}

// actorVal: what an `act` member holds.
func (g gen) actorVal() *actorV {
	var a *actorV
	switch {
	case g.st.prev != nil && g.r.Chance(1, 6): // the object an earlier value already references
		a = g.st.prev
		g.note("actshare=earlier-value")
	case g.r.Chance(3, 5):
		a = g.chain()
	default:
		a = g.actor(g.r.IntN(5))
		g.note("actshape=free")
	}
	g.note("actdepth=" + strconv.Itoa(a.depth()))
	if a.depth() > 0 {
		g.note("actrepeat=" + map[bool]string{true: "yes", false: "no"}[a.repeats()])
	}
	g.st.prev = a
	return a
}

func (g gen) fieldVal(f fieldInfo, wf bool) fv {
	v := fv{kind: f.Kind}
	unset := g.r.Chance(1, 3)
	switch f.Kind {
	case "KStr":
		if !unset {
			v.s = g.str()
		}
	case "KTime":
		if !unset {
			v.z = g.timeVal()
		}
	case "KAud", "KStrs":
		v.strs = g.strs(g.str)
	case "KSDA":
		if wf {
			v.strs = g.strs(g.word)
		} else {
			v.strs = g.strs(g.str)
		}
	case "KBool", "KBoolS":
		v.b = g.r.Bool()
	case "KLocale":
		if !unset {
			s := drv.Pick(g.r, localePool)
			v.loc = &s
		}
	case "KActor":
		if !unset {
			v.act = g.actorVal()
		}
	case "KAddr":
		if !unset {
			a := [6]string{}
			for i := range a {
				if g.r.Bool() {
					a[i] = g.str()
				}
			}
			v.addr = &a
		}
	case "KMap":
		switch g.r.IntN(3) {
		case 0:
		case 1:
			v.m = map[string]any{}
		default:
			v.m = map[string]any{"http://schemas.openid.net/event/backchannel-logout": map[string]any{}, g.key(): g.jsonVal(1)}
		}
	}
	return v
}

// value generates registered members and a custom map for a type.
func (g gen) value(ti tyInfo) ([]fv, map[string]any, []string) {
	tags := []string{}
	g.st.tags = nil
	wf := !g.r.Chance(1, 12)
	if !wf {
		tags = append(tags, "wf=no")
	}
	sparse := g.r.Chance(1, 4) // few members set
	vals := make([]fv, len(ti.Schema))
	for i, f := range ti.Schema {
		if sparse && g.r.Chance(3, 4) {
			vals[i] = fv{kind: f.Kind}
		} else {
			vals[i] = g.fieldVal(f, wf)
		}
	}
	var claims map[string]any
	mode := g.r.IntN(8)
	switch {
	case mode == 0: // nil map
		tags = append(tags, "custom=nil")
	case mode == 1:
		claims = map[string]any{}
		tags = append(tags, "custom=empty")
	default:
		claims = map[string]any{}
		for i := 1 + g.r.IntN(5); i > 0; i-- {
			claims[g.key()] = g.customVal()
		}
		coll := "none"
		if mode >= 4 { // collide with registered names
			n := 1 + g.r.IntN(3)
			if mode == 7 {
				n = len(ti.Schema) // every registered name
			}
			for _, i := range g.r.Perm(len(ti.Schema))[:min(n, len(ti.Schema))] {
				f := ti.Schema[i]
				claims[f.Name] = g.typedJSON(f.Kind)
			}
			coll = "some"
			if mode == 7 {
				coll = "all"
			}
		}
		tags = append(tags, "custom=set", "collide="+coll)
		if g.r.Chance(1, 5) && g.addCaseVariants(ti, vals, claims, 1+g.r.IntN(2)) > 0 {
			tags = append(tags, "fxx-c12-1=case-variant-key")
		}
		if g.r.Chance(1, 4) { // look-alikes of registered members among the custom claims
			for j := 1 + g.r.IntN(2); j > 0; j-- {
				f := drv.Pick(g.r, ti.Schema)
				if al := aliasesOf(ti, f.Name); len(al) > 0 {
					claims[drv.Pick(g.r, al)] = g.aliasVal(f.Kind)
					tags = append(tags, "alias=custom")
				}
			}
		}
		// custom claims that are *oidc.ActorClaims on the Go side: a member of the
		// value's own act chain (one object, two paths), or a chain of their own
		// (also under the name "act": read back into an unset act member)
		if g.r.Chance(1, 4) {
			var members []*actorV
			for _, v := range vals {
				for x := v.act; x != nil && x.plain; x = x.act {
					members = append(members, x)
				}
			}
			if len(members) > 0 && g.r.Chance(2, 3) {
				m := drv.Pick(g.r, members)
				claims[drv.Pick(g.r, []string{"may_act", "origin", "actor", "x"})] = actorRef{m}
				if g.r.Chance(1, 3) {
					claims["actors"] = []any{actorRef{m}, actorRef{members[len(members)-1]}, actorRef{m}}
				}
				tags = append(tags, "actshare=ptr-in-custom")
			} else {
				claims[drv.Pick(g.r, []string{"may_act", "act", "act", "origin"})] = actorRef{g.chain()}
				tags = append(tags, "actshare=custom-actor")
			}
		}
	}
	return vals, claims, append(tags, g.st.tags...)
}

// isEmpty mirrors encoding/json's omitempty test on the model value.
func (v fv) isEmpty() bool {
	switch v.kind {
	case "KStr":
		return v.s == ""
	case "KTime":
		return v.z == 0
	case "KAud", "KStrs", "KSDA":
		return len(v.strs) == 0
	case "KBool", "KBoolS":
		return !v.b
	case "KLocale":
		return v.loc == nil
	case "KActor":
		return v.act == nil
	case "KAddr":
		return v.addr == nil
	case "KMap":
		return len(v.m) == 0
	}
	return true
}

// caseVariant returns a key that encoding/json matches to the member `name`
// although it is not that name: ASCII case, U+017F for s, U+212A for k.
func (g gen) caseVariant(name string) string {
	var opts []string
	opts = append(opts, strings.ToUpper(name), strings.ToUpper(name[:1])+name[1:])
	if i := strings.IndexByte(name, 's'); i >= 0 {
		opts = append(opts, name[:i]+"\u017f"+name[i+1:])
	}
	if i := strings.IndexByte(name, 'k'); i >= 0 {
		opts = append(opts, name[:i]+"\u212a"+name[i+1:])
	}
	return drv.Pick(g.r, opts)
}

// addCaseVariants adds custom keys that are case variants of members that are
// written (set or not omitempty); returns how many were added.
func (g gen) addCaseVariants(ti tyInfo, vals []fv, claims map[string]any, n int) int {
	var present []fieldInfo
	for i, f := range ti.Schema {
		if !(f.Omit && vals[i].isEmpty()) {
			present = append(present, f)
		}
	}
	if len(present) == 0 {
		return 0
	}
	added := 0
	for ; n > 0; n-- {
		f := drv.Pick(g.r, present)
		k := g.caseVariant(f.Name)
		if k != f.Name {
			claims[k] = g.typedJSON(f.Kind)
			added++
		}
	}
	return added
}

func build(ti tyInfo, vals []fv, claims map[string]any) reflect.Value {
	p := reflect.New(ti.Type)
	for i, f := range ti.Schema {
		vals[i].set(p.Elem().FieldByIndex(f.Index))
	}
	setClaims(p, realClaims(claims))
	return p
}

// ---------- alternative / malformed forms ----------

var altForms = []struct {
	tag string
	v   any
}{
	{"null", nil}, {"true", true}, {"false", false}, {"str-true", "true"}, {"str-false", "false"},
	{"num0", 0.0}, {"num1", 1.0}, {"num-time", 1700000000.0}, {"num-frac", 1.5}, {"num-neg", -3.0},
	{"lit-exp", numLit("1e9")}, {"lit-exp2", numLit("17e8")}, {"lit-frac-exp", numLit("1.7e9")}, {"lit-frac-Exp", numLit("1.7E+9")},
	{"lit-point-zero", numLit("1700000000.0")}, {"lit-frac-exp-nonint", numLit("1.7000000001e9")}, {"lit-neg-zero", numLit("-0")},
	{"lit-neg-exp", numLit("17000000000e-1")}, {"lit-big", numLit("2.53402300799e11")}, {"lit-2p53", numLit("9.007199254740992e15")},
	{"lit-neg-frac-exp", numLit("-1.5e3")}, {"lit-small", numLit("1e-3")},
	{"esc-slash", strLit{"https://rp.example/cb", `"https:\/\/rp.example\/cb"`}}, {"esc-amp", strLit{"a=1&b=2", `"a=1\u0026b=2"`}},
	{"esc-quote", strLit{`say "hi" \ bye`, `"say \"hi\" \\ bye"`}}, {"esc-surrogate", strLit{"\U0001F600x", `"\ud83d\ude00x"`}},
	{"esc-all", strLit{"a b", `"\u0061\u0020\u0062"`}}, {"esc-rfc3339", strLit{"2023-01-02T03:04:05Z", `"2023-01-02T03:04:05\u005a"`}},
	{"esc-locale", strLit{"de-CH en", `"de\u002dCH\u0020en"`}},
	{"esc-arr", []any{strLit{"https://rp.example/cb", `"https:\/\/rp.example\/cb"`}, strLit{"de-CH", `"de\u002DCH"`}}},
	{"str-locales-compound", "xyz-DE de-CH-geneva en-Abcd de-CH abcdefghi-DE i-klingon x-private en-GB-oed de-DE-1996 und-DE"},
	{"arr-locales-compound", []any{"xyz-DE", "de-CH-geneva", "en-Abcd", "fr-FR", "de-abcdefghi", "zh-min-nan", "en-US-u-co-phonebk"}},
	{"str-locale-compound-unknown", "en-Abcd"}, {"str-locale-compound-unknown2", "xyz-DE"},
	// near misses of the documented boolean / null forms and keyword-like strings
	{"str-True", "True"}, {"str-TRUE", "TRUE"}, {"str-tRue", "tRue"}, {"str-t", "t"}, {"str-T", "T"}, {"str-1", "1"}, {"str-0", "0"},
	{"str-yes", "yes"}, {"str-on", "on"}, {"str-true-lead", " true"}, {"str-true-trail", "true "}, {"str-true-nl", "true\n"}, {"str-true-tab", "\ttrue"},
	{"str-true-quoted", `"true"`}, {"str-false-F", "False"}, {"str-null", "null"}, {"str-NULL", "NULL"}, {"str-nil", "nil"}, {"str-undefined", "undefined"},
	{"str-arr", "[]"}, {"str-obj", "{}"}, {"str-kelvin", "\u212a"}, {"str-long-s", "fal\u017fe"}, {"str-true-long-s", "true\u017f"},
	{"lit-one-point-zero", numLit("1.0")}, {"lit-one-exp", numLit("1e0")}, {"num-minus1", -1.0}, {"arr-true", []any{true}}, {"arr-str-true", []any{"true"}},
	{"obj-true", map[string]any{"true": true}},
	{"str-empty", ""}, {"str", "abc"}, {"str-spaces", "a b  c"}, {"str-rfc3339", "2023-01-02T03:04:05Z"},
	{"str-rfc3339-offset", "2023-11-14T22:13:20+02:00"}, {"str-rfc3339-zero", "0001-01-01T00:00:00Z"},
	{"str-badtime", "2023-13-02T03:04:05Z"}, {"str-locale", "de-CH"}, {"str-locales", "en de-CH xx-YY und"},
	{"str-locale-unknown", "xx-YY"}, {"str-locale-syntax", "e_n!"}, {"str-locale-old", "iw"},
	{"arr-empty", []any{}}, {"arr-str", []any{"a"}}, {"arr-strs", []any{"a", "b"}}, {"arr-str-num", []any{"a", 1.0}},
	{"arr-null", []any{nil}}, {"arr-str-null", []any{"a", nil}}, {"arr-num", []any{1.0}}, {"arr-arr", []any{[]any{"a"}}},
	{"arr-locales", []any{"en", "xx-YY", "de-CH", "bad tag"}}, {"arr-obj", []any{map[string]any{}}},
	{"obj-empty", map[string]any{}}, {"obj-iss", map[string]any{"iss": "x", "k": 1.0}},
	{"obj-act", map[string]any{"act": map[string]any{"sub": "y", "act": nil}, "sub": "z"}},
	{"obj-act-bad", map[string]any{"act": 5.0}}, {"obj-iss-bad", map[string]any{"iss": 5.0}},
	{"obj-act-deep-bad", map[string]any{"act": map[string]any{"act": map[string]any{"sub": []any{}}}}},
	{"obj-addr", map[string]any{"country": "CH", "locality": 5.0}}, {"obj-addr-ok", map[string]any{"country": "CH", "formatted": "x", "other": true}},
}

// ---------- the round trip over the wire ----------

// wireDecode reads a 200 application/json response with body b the way the
// library's clients do (rs.Introspect, rp.Userinfo, token / discovery calls all
// end in pkg/http HttpRequest): no socket, the transport hands the bytes over.
// A claims document is a claims document whichever way it arrives: the result
// has to be what json.Unmarshal gives.
type cannedTransport struct{ body []byte }

func (t cannedTransport) RoundTrip(req *http.Request) (*http.Response, error) {
	return &http.Response{Status: "200 OK", StatusCode: 200, Proto: "HTTP/1.1", ProtoMajor: 1, ProtoMinor: 1,
		Header:        http.Header{"Content-Type": {"application/json"}},
		Body:          io.NopCloser(strings.NewReader(string(t.body))),
		ContentLength: int64(len(t.body)), Request: req}, nil
}

func wireDecode(b []byte, dst any) error {
	req, err := http.NewRequest(http.MethodGet, "https://op.example.com/userinfo", nil)
	if err != nil {
		return err
	}
	req.Header.Set("authorization", "Bearer at")
	return httphelper.HttpRequest(&http.Client{Transport: cannedTransport{b}}, req, dst)
}

// wireKeys: member names of the protocol's OTHER response documents (error
// response, authorization response, token response, introspection): as custom
// claims they are data like any other.
var wireKeys = []string{"error", "error_description", "error_uri", "state", "code", "active", "access_token", "token_type",
	"expires_in", "id_token", "refresh_token", "scope", "status", "message"}

func zeroVals(ti tyInfo, set map[string]fv) []fv {
	vals := make([]fv, len(ti.Schema))
	for i, f := range ti.Schema {
		vals[i] = fv{kind: f.Kind}
		if v, ok := set[f.Name]; ok && v.kind == f.Kind {
			vals[i] = v
		}
	}
	return vals
}

// wireSweep: every type x every wire key (as a custom claim holding a string, a
// number or the empty string), marshalled and read back through the client
// decoder.
func wireSweep(w *emit.Writer) {
	forms := []struct {
		tag string
		v   any
	}{{"str", "none"}, {"str-code", "invalid_request"}, {"num", 5}, {"str-empty", ""}, {"obj", map[string]string{"error": "x"}}}
	n := 0
	for _, ti := range types {
		for _, k := range wireKeys {
			for _, fi := range []int{n % 2, 2 + n%3} {
				roundCaseWith(w, ti, zeroVals(ti, map[string]fv{"sub": {kind: "KStr", s: "alice"}, "iss": {kind: "KStr", s: "https://issuer.example.com"}}),
					map[string]any{k: forms[fi].v, "role": "r"}, []string{"custom=set", "collide=wire", "via=http", "wirekey=" + k, "wireform=" + forms[fi].tag})
			}
			n++
		}
	}
}

// ---------- look-alike members ----------

// aliasTable: names other providers / older drafts / sloppy callers use for
// what a registered member holds. None of them is a registered name (nor a case
// variant of one: aliasesOf filters per type), so whatever such a member holds
// is a custom claim and must never turn up in the registered member.
var aliasTable = map[string][]string{
	"scope": {"scp", "scopes", "scope_list", "permissions", "scope "}, "aud": {"audience", "audiences", "resource", "aud_"},
	"client_id": {"client", "cid", "clientId", "appid", "client-id"}, "sub": {"uid", "user_id", "userId", "subject", "oid"},
	"iss": {"issuer", "idp", "iss_"}, "exp": {"expires", "expires_at", "expiry", "expires_in"}, "iat": {"issued_at", "issuedAt"},
	"nbf": {"not_before", "notBefore"}, "auth_time": {"authTime", "auth-time"}, "amr": {"amrs", "auth_methods"}, "acr": {"acrs", "acr_values"},
	"azp": {"authorized_party", "azp_", "azpacr"}, "jti": {"uti", "tid", "token_id"}, "nonce": {"nonce_", "n"}, "act": {"actor", "may_act", "acts"},
	"email": {"mail", "emails", "e-mail"}, "email_verified": {"emailVerified", "email-verified", "verified"},
	"phone_number": {"phone", "phoneNumber"}, "phone_number_verified": {"phoneNumberVerified", "phone_verified"},
	"username": {"user_name", "upn", "unique_name", "login"}, "preferred_username": {"preferred-username", "preferredUsername"},
	"name": {"display_name", "displayName", "names"}, "given_name": {"givenName", "first_name"}, "family_name": {"familyName", "last_name"},
	"locale": {"locales", "ui_locales", "lang"}, "address": {"addr", "addresses"}, "updated_at": {"updatedAt", "updated"},
	"events": {"event", "evt"}, "sid": {"session_id", "sids"}, "active": {"is_active", "valid", "actives"}, "token_type": {"typ", "tokenType"},
	"at_hash": {"atHash", "at-hash"}, "c_hash": {"cHash"}, "picture": {"avatar"}, "website": {"url"}, "gender": {"sex"}, "birthdate": {"dob", "birthday"},
	"zoneinfo": {"tz", "timezone"}, "nickname": {"nick"}, "middle_name": {"middleName"}, "profile": {"profiles"},
}

func aliasesOf(ti tyInfo, name string) []string {
	var out []string
next:
	for _, a := range append(append([]string{}, aliasTable[name]...), name+"s", "x-"+name, strings.ReplaceAll(name, "_", "-")) {
		for _, f := range ti.Schema {
			if strings.EqualFold(a, f.Name) {
				continue next
			}
		}
		out = append(out, a)
	}
	return out
}

// aliasForms: what a look-alike member may hold besides the member's own
// documented forms: arrays with mixed element types first.
var aliasForms = []struct {
	tag string
	v   any
}{
	{"arr-mixed", []any{"read", 7.0}}, {"arr-null", []any{"a", nil}}, {"arr-strs", []any{"read", "write"}}, {"str-words", "read write"},
	{"str", "x"}, {"num", 1700000000.0}, {"null", nil}, {"obj", map[string]any{"sub": "y", "k": []any{1.0}}}, {"true", true}, {"str-true", "true"},
	{"arr-obj", []any{map[string]any{}}}, {"arr-arr", []any{[]any{"a"}}}, {"str-rfc3339", "2023-01-02T03:04:05Z"}, {"str-locale", "de-CH"},
}

func (g gen) aliasVal(kind string) any {
	if g.r.Bool() {
		return g.typedJSON(kind)
	}
	return drv.Pick(g.r, aliasForms).v
}

// aliasSweep: for every type, every registered member and every look-alike
// name: the document that lacks the member and holds the look-alike (a
// mixed-type array, a form made of strings only, and one other form in turn).
func aliasSweep(w *emit.Writer) {
	n := 0
	for _, ti := range types {
		for _, f := range ti.Schema {
			for _, a := range aliasesOf(ti, f.Name) {
				n++
				for _, form := range []int{0, 2 + n%2, 4 + n%(len(aliasForms)-4)} { // mixed array; all-string array / string of words; one other
					doc := map[string]any{a: aliasForms[form].v}
					if f.Name != "sub" {
						doc["sub"] = "u"
					}
					decDoc(w, ti, doc, []string{"kind=dec", "type=" + ti.Coq, "alias=" + f.Kind + ":absent", "aliasform=" + aliasForms[form].tag})
				}
			}
		}
	}
}

// ---------- cases ----------

// sizeCases: values and documents beyond 1 KiB / 4 KiB (8 KiB in the thorough
// tier): one long member, one long custom claim, a scope of 200 words, a
// nested chain whose levels are each beyond 1 KiB, long inputs of the
// stand-alone decoders.
func sizeCases(w *emit.Writer, thorough bool) {
	zero := func(ti tyInfo, set map[string]fv) []fv {
		vals := make([]fv, len(ti.Schema))
		for i, f := range ti.Schema {
			vals[i] = fv{kind: f.Kind}
			if v, ok := set[f.Name]; ok && v.kind == f.Kind {
				vals[i] = v
			}
		}
		return vals
	}
	words := make([]string, 200)
	for i := range words {
		words[i] = "s" + strconv.Itoa(i)
	}
	at := types[1]
	roundCaseWith(w, at, zero(at, map[string]fv{"iss": {kind: "KStr", s: longStr(1100)}, "sub": {kind: "KStr", s: "alice"},
		"scope": {kind: "KSDA", strs: words}}), map[string]any{"blob": longStr(4200), "role": "r"}, []string{"custom=set", "collide=none", "size=4k"})
	lvl := func(i int, act *actorV) *actorV {
		return &actorV{act: act, iss: "https://issuer.example.com", sub: []string{"svc-a", "svc-b"}[i%2],
			claims: map[string]any{"note": longStr(1400 + i)}, plain: true}
	}
	ac := types[7]
	roundCaseWith(w, ac, zero(ac, map[string]fv{"act": {kind: "KActor", act: lvl(1, lvl(2, nil))}, "sub": {kind: "KStr", s: "svc-a"}}),
		map[string]any{"note": longStr(1400)}, []string{"custom=set", "collide=none", "size=4k", "actdepth=1"})
	decK(w, "KAud", "long", longStr(4100), []string{"size=4k"})
	decK(w, "KSDA", "long", strings.Join(words, " "), []string{"size=1k"})
	if thorough {
		ui := types[3]
		roundCaseWith(w, ui, zero(ui, map[string]fv{"sub": {kind: "KStr", s: "alice"}, "name": {kind: "KStr", s: longStr(8200)}}),
			map[string]any{"blob": longStr(8200)}, []string{"custom=set", "collide=none", "size=8k"})
		decK(w, "KLocales", "long", strings.Repeat("de-CH en xx-YY ", 300), []string{"size=4k"})
	}
}

func codecCases(w *emit.Writer, r drv.Rand, n int, thorough bool) {
	g := gen{r, &genState{}}
	for i := range types {
		types[i].Schema, types[i].Unknown = deriveSchema(types[i].Type)
	}
	// schema cases
	for _, ti := range types {
		items := make([]string, len(ti.Schema))
		for i, f := range ti.Schema {
			items[i] = emit.Ctor("F", emit.Str(f.Name), f.Kind, emit.Bool(f.Omit))
		}
		obs := emit.Ctor("OSchema", emit.List(items))
		if len(ti.Unknown) > 0 {
			obs = emit.Ctor("OSchemaX", emit.List(items), emit.StrList(ti.Unknown))
		}
		w.Add(emit.Case{Input: emit.Ctor("ISchema", ti.Coq), Observed: obs,
			Tags: []string{"kind=schema", "type=" + ti.Coq}, Human: map[string]any{"unknown_members": ti.Unknown}})
	}
	// the F01 input of DESIGN.md section 6, always present
	decK(w, "KAud", "arr-str-num", []any{"a", 1.0}, []string{"f01=aud-nonstring"})
	// EVERY alternative form (number and string spellings, compound language
	// tags, near misses of true, keyword-like strings, arrays, objects) through
	// EVERY stand-alone decoder, in every run
	for _, a := range altForms {
		for _, k := range []string{"KAud", "KTime", "KBoolS", "KSDA", "KLocales", "KLocale"} {
			decK(w, k, a.tag, a.v, nil)
		}
	}
	// the Fxx-C12-1 input: custom keys that encoding/json folds onto set members
	for _, ti := range []tyInfo{types[1], types[7]} {
		vals := make([]fv, len(ti.Schema))
		for i, f := range ti.Schema {
			vals[i] = fv{kind: f.Kind}
			if f.Name == "iss" {
				vals[i].s = "https://issuer.example.com"
			}
			if f.Name == "sub" {
				vals[i].s = "alice"
			}
		}
		roundCaseWith(w, ti, vals, map[string]any{"i\u017fs": "https://evil.example", "\u017fub": "mallory", "ISS": "x", "role": "r"},
			[]string{"custom=set", "collide=none", "fxx-c12-1=case-variant-key"})
	}
	sizeCases(w, thorough)
	aliasSweep(w)
	wireSweep(w)
	for i := 0; i < n; i++ {
		ti := types[i%len(types)]
		switch (i / len(types)) % 5 {
		case 0, 1:
			roundCase(w, g, ti)
		case 2, 3:
			decCase(w, g, ti)
		default:
			k := drv.Pick(r, []string{"KAud", "KTime", "KBoolS", "KSDA", "KLocales", "KLocale"})
			a := drv.Pick(r, altForms)
			if r.Chance(1, 3) {
				a.tag, a.v = "typed", g.typedJSON(k)
			}
			decK(w, k, a.tag, a.v, nil)
		}
	}
}

func roundCase(w *emit.Writer, g gen, ti tyInfo) {
	vals, claims, tags := g.value(ti)
	if g.r.Chance(1, 4) {
		tags = append(tags, "seq=twice")
	}
	if g.r.Chance(1, 3) {
		tags = append(tags, "via=http")
	}
	roundCaseWith(w, ti, vals, claims, tags)
}

// parseDoc reads bytes the library produced into the generic form. Bytes that
// are not JSON are an outcome (ok = false), not a reason to stop.
func parseDoc(b []byte) (doc any, ok bool) {
	if err := json.Unmarshal(b, &doc); err != nil {
		return nil, false
	}
	return doc, true
}

// roundCaseWith: json.Marshal the value, json.Unmarshal the bytes into a fresh
// value. Every failure of the library is an observed outcome: a panic is
// OPanic, an error from Marshal (or bytes that are not JSON) is ORound None _,
// an error from Unmarshal is ORound (Some doc) None. With the tag seq=twice the
// SAME Go object is marshalled a second time and that is a second case with the
// same input (Marshal must not use up or change the value).
func roundCaseWith(w *emit.Writer, ti tyInfo, vals []fv, claims map[string]any, tags []string) {
	inClaims := objterm(genericObj(claims)) // before Marshal (JWTTokenRequest.MarshalJSON writes into its map)
	inVals := valsTerm(vals)
	reps := 1
	var seq []string
	for _, t := range tags {
		if t == "seq=twice" {
			reps = 2
		} else {
			seq = append(seq, t)
		}
	}
	viaHTTP := hasTag(tags, "via=http")
	var in reflect.Value
	pb := drv.Catch(func() { in = build(ti, vals, claims) }) // oidc.NewLocale
	for rep := 1; rep <= reps; rep++ {
		var doc any
		var back reflect.Value
		var merr, uerr error
		var bytes []byte
		p := pb
		if p == "" {
			p = drv.Catch(func() {
				bytes, merr = json.Marshal(in.Interface())
				if merr == nil {
					back = reflect.New(ti.Type)
					if viaHTTP {
						uerr = wireDecode(bytes, back.Interface())
					} else {
						uerr = json.Unmarshal(bytes, back.Interface())
					}
				}
			})
		}
		o := newOracles()
		obs := "OPanic"
		human := map[string]any{"doc": string(bytes)}
		if p == "" {
			docT, backT := emit.None, emit.None
			if merr != nil {
				human["marshal_error"] = merr.Error()
			} else if d, ok := parseDoc(bytes); !ok {
				human["marshal_error"] = "Marshal returned bytes that are not JSON"
			} else {
				doc = d
				o.addDoc(doc)
				docT = emit.Some(jterm(doc))
				if uerr == nil {
					pp := drv.Catch(func() { backT = emit.Some(decTerm(project(ti, back))) }) // Locale.Tag
					if pp != "" {
						obs = "OPanic"
						p = pp
					}
				} else {
					human["unmarshal_error"] = uerr.Error()
				}
			}
			if p == "" {
				obs = emit.Ctor("ORound", docT, backT)
			}
		}
		if p != "" {
			human["panic"] = p
		}
		for _, v := range vals { // locale members: the guard asks the oracle about them
			if v.loc != nil {
				o.addString(*v.loc)
			}
		}
		ctags := append([]string{"kind=round", "type=" + ti.Coq}, seq...)
		if reps == 2 {
			ctags = append(ctags, fmt.Sprintf("seq=%dof2", rep))
		}
		w.Add(emit.Case{Input: emit.Ctor("IRound", ti.Coq, inVals, inClaims, o.term()), Observed: obs, Tags: ctags, Human: human})
	}
}

func decCase(w *emit.Writer, g gen, ti tyInfo) {
	r := g.r
	var doc any
	tags := []string{"kind=dec", "type=" + ti.Coq}
	if r.Chance(1, 12) { // not an object at all
		a := drv.Pick(r, []struct {
			tag string
			v   any
		}{{"null", nil}, {"arr", []any{}}, {"str", "x"}, {"num", 5.0}, {"bool", true}, {"obj-empty", map[string]any{}}})
		doc = a.v
		tags = append(tags, "doc="+a.tag)
	} else {
		// a mostly valid document: what the library writes for a generated value.
		// When the library cannot write it (error, panic, bytes that are not a
		// JSON object) THAT is the outcome to report: the value becomes a
		// round-trip case, on which the property predicate is false.
		vals, claims, vtags := g.value(ti)
		var b []byte
		var err error
		p := drv.Catch(func() { b, err = json.Marshal(build(ti, vals, claims).Interface()) })
		var m map[string]any
		if p == "" && err == nil {
			if d, ok := parseDoc(b); ok {
				m, _ = d.(map[string]any)
			}
		}
		if m == nil {
			roundCaseWith(w, ti, vals, claims, append(vtags, "from=dec-document"))
			return
		}
		doc = m
		nm := drv.Pick(r, []int{0, 1, 1, 1, 2, 2, 3})
		for j := 0; j < nm; j++ {
			f := drv.Pick(r, ti.Schema)
			a := drv.Pick(r, altForms)
			if r.Chance(2, 5) { // a form the member kind is documented to read
				a.tag, a.v = "typed", g.typedJSON(f.Kind)
				switch a.v.(type) {
				case numLit:
					a.tag = "typed-numlit"
				case strLit:
					a.tag = "typed-strlit"
				}
			}
			m[f.Name] = a.v
			tags = append(tags, "alt="+f.Kind+":"+a.tag)
			if f.Kind == "KAud" && strings.HasPrefix(a.tag, "arr-") && a.tag != "arr-empty" && a.tag != "arr-str" && a.tag != "arr-strs" {
				tags = append(tags, "f01=aud-nonstring")
			}
		}
		if nm == 0 {
			tags = append(tags, "alt=none")
		}
		// look-alike custom members next to a registered member that is absent
		// (or present): scp / scopes for scope, audience for aud, uid for sub ...
		if r.Chance(2, 5) {
			for j := 1 + r.IntN(3); j > 0; j-- {
				f := drv.Pick(r, ti.Schema)
				al := aliasesOf(ti, f.Name)
				if len(al) == 0 {
					continue
				}
				for k := 1 + r.IntN(2); k > 0; k-- {
					m[drv.Pick(r, al)] = g.aliasVal(f.Kind)
				}
				st := "present"
				if r.Chance(2, 3) {
					delete(m, f.Name)
					st = "absent"
				} else if _, ok := m[f.Name]; !ok {
					st = "absent"
				}
				tags = append(tags, "alias="+f.Kind+":"+st)
			}
		}
		// an act chain written by the driver (repeated parties, depth 0-4)
		for _, f := range ti.Schema {
			if f.Kind == "KActor" && r.Chance(1, 4) {
				d := r.IntN(5)
				m[f.Name] = g.actorDoc(d)
				tags = append(tags, "alt=KActor:chain", "actdepth="+strconv.Itoa(d))
			}
		}
	}
	decDoc(w, ti, doc, tags)
}

// decDoc feeds one document to the type's decoder (and re-marshals what it accepted).
func decDoc(w *emit.Writer, ti tyInfo, doc any, tags []string) {
	b, err := json.Marshal(doc) // driver-side value (generic JSON, numLit, strLit)
	if err != nil {
		panic(err)
	}
	var uerr, merr error
	var out reflect.Value
	var re []byte
	p := drv.Catch(func() {
		out = reflect.New(ti.Type)
		uerr = json.Unmarshal(b, out.Interface())
	})
	o := newOracles()
	o.addDoc(doc)
	obs := "OPanic"
	human := map[string]any{"doc": string(b)}
	if p == "" {
		if uerr != nil {
			obs = emit.Ctor("ODec", emit.None, emit.None)
		} else {
			var dt string
			p = drv.Catch(func() {
				dt = decTerm(project(ti, out)) // before re-marshalling (it may write into the value)
				re, merr = json.Marshal(out.Interface())
			})
			if p == "" {
				reT := emit.None
				if merr != nil {
					human["remarshal_error"] = merr.Error()
				} else if rd, ok := parseDoc(re); ok {
					reT = emit.Some(jterm(rd))
				} else {
					human["remarshal_error"] = "Marshal returned bytes that are not JSON"
				}
				obs = emit.Ctor("ODec", emit.Some(dt), reT)
			}
		}
	}
	if p != "" {
		human["panic"] = p
	}
	w.Add(emit.Case{Input: emit.Ctor("IDec", ti.Coq, jterm(doc), o.term()), Observed: obs, Tags: tags, Human: human})
}

func decK(w *emit.Writer, kind, tag string, v any, extra []string) {
	b, err := json.Marshal(v) // driver-side value (generic JSON, numLit, strLit)
	if err != nil {
		panic(err)
	}
	var target reflect.Value
	switch kind {
	case "KAud":
		target = reflect.New(tAud)
	case "KTime":
		target = reflect.New(tTime)
	case "KBoolS":
		target = reflect.New(tBoolS)
	case "KSDA":
		target = reflect.New(tSDA)
	case "KLocales":
		target = reflect.New(tLocales)
	case "KLocale": // a *Locale member on its own: json allocates the pointer, as in a struct
		target = reflect.New(tLocale)
	}
	var uerr error
	var got string
	p := drv.Catch(func() {
		uerr = json.Unmarshal(b, target.Interface())
		if uerr == nil {
			got = get(kind, target.Elem()).term()
		}
	})
	o := newOracles()
	o.addDoc(v)
	obs := "OPanic"
	if p == "" {
		if uerr != nil {
			obs = emit.Ctor("ODecK", emit.None)
		} else {
			obs = emit.Ctor("ODecK", emit.Some(got))
		}
	}
	tags := append([]string{"kind=deck", "decoder=" + kind, "form=" + tag}, extra...)
	if kind == "KAud" && (tag == "arr-null" || tag == "arr-str-null" || tag == "arr-num" || tag == "arr-arr" || tag == "arr-obj") {
		tags = append(tags, "f01=aud-nonstring")
	}
	w.Add(emit.Case{Input: emit.Ctor("IDecK", kind, jterm(v), o.term()), Observed: obs, Tags: tags,
		Human: map[string]any{"doc": string(b)}})
}
