// Driver for C12 (claims codec and sealing). Sealing cases here, codec cases in codec.go.
package main

import (
	"bytes"
	"crypto/aes"
	"crypto/cipher"
	crand "crypto/rand"
	"encoding/base64"
	"fmt"
	"os"

	"verifharness/drv"
	"verifharness/emit"

	"github.com/zitadel/oidc/v3/pkg/crypto"
	"github.com/zitadel/oidc/v3/pkg/op"
)

func table(key []byte, blocks [][]byte) string {
	c, err := aes.NewCipher(key)
	if err != nil {
		return "[]"
	}
	var items []string
	seen := map[string]bool{}
	for _, b := range blocks {
		if len(b) != 16 || seen[string(b)] {
			continue
		}
		seen[string(b)] = true
		out := make([]byte, 16)
		c.Encrypt(out, b)
		items = append(items, emit.Pair(emit.Bytes(b), emit.Bytes(out)))
	}
	return emit.List(items)
}

// blocks of a raw ciphertext (iv ++ body) that CFB feeds to the cipher
func feedBlocks(ct []byte) [][]byte {
	var bl [][]byte
	for i := 0; i+16 <= len(ct); i += 16 {
		bl = append(bl, ct[i:i+16])
	}
	return bl
}

func optBytes(s string, err error) string {
	if err != nil {
		return emit.None
	}
	return emit.Some(emit.Bytes([]byte(s)))
}

// ownSeal: the sealed string for a CHOSEN iv, made by the harness with
// crypto/aes + crypto/cipher and the framing of the model (base64url, no
// padding, of iv ++ CFB(plain)).
func ownSeal(key, iv, plain []byte) string {
	block, err := aes.NewCipher(key)
	if err != nil {
		panic(err)
	}
	out := make([]byte, 16+len(plain))
	copy(out, iv)
	cipher.NewCFBEncrypter(block, iv).XORKeyStream(out[16:], plain)
	return base64.RawURLEncoding.EncodeToString(out)
}

// sealCase: seal under a 32-byte key with the chosen iv (the library's
// EncryptAES reading the iv from crypto/rand, op.NewAESCrypto(key).Encrypt, or
// the harness's own sealing), open under key and key2 through
// crypto.DecryptAES or op.NewAESCrypto(k).Decrypt.
func sealCase(w *emit.Writer, key, key2, iv, plain []byte, via string, own bool, tags []string) {
	arr := func(k []byte) (a [32]byte) { copy(a[:], k); return }
	enc := func(p string) (string, error) {
		if via == "op" {
			return op.NewAESCrypto(arr(key)).Encrypt(p)
		}
		return crypto.EncryptAES(p, string(key))
	}
	dec := func(s string, k []byte) (string, error) {
		if via == "op" {
			return op.NewAESCrypto(arr(k)).Decrypt(s)
		}
		return crypto.DecryptAES(s, string(k))
	}
	var ct, d1, d2 string
	var err, e1, e2 error
	if own {
		ct = ownSeal(key, iv, plain)
	}
	saved := crand.Reader
	crand.Reader = bytes.NewReader(iv)
	p := drv.Catch(func() {
		if !own {
			ct, err = enc(string(plain))
		}
		crand.Reader = saved
		if err == nil {
			d1, e1 = dec(ct, key)
			d2, e2 = dec(ct, key2)
		}
	})
	crand.Reader = saved
	var obs string
	var raw []byte
	switch {
	case p != "":
		obs = "OPanic"
	case err != nil:
		obs = emit.Ctor("OSeal", emit.None, emit.None, emit.None)
	default:
		raw, _ = base64.RawURLEncoding.DecodeString(ct)
		obs = emit.Ctor("OSeal", emit.Some(emit.Str(ct)), optBytes(d1, e1), optBytes(d2, e2))
	}
	in := emit.Ctor("ISeal", emit.Bytes(key), emit.Bytes(iv), emit.Bytes(plain), emit.Bytes(key2),
		table(key, append([][]byte{iv}, feedBlocks(raw)...)), table(key2, feedBlocks(raw)))
	src := "library"
	if own {
		src = "harness"
	}
	w.Add(emit.Case{Input: in, Observed: obs,
		Tags:  append([]string{"kind=seal", "keylen=32", "via=" + via, "sealed-by=" + src}, tags...),
		Human: map[string]any{"key": key, "iv": iv, "plain": plain, "key2": key2, "ct": ct, "panic": p}})
}

// ivSweep: "for every plaintext and key" includes every iv the random source can
// deliver: all 256 values of the first iv byte, and ivs whose sealed text
// begins like something else (a JWT: eyJ..., the JSON texts {} null true []
// "", a URL, dots and dashes), each opened through both entry points; the
// keyword ivs also as harness-made sealed strings.
func ivSweep(w *emit.Writer, r drv.Rand) {
	mk := func(prefix string) []byte {
		s := prefix + "AAAAAAAAAAAAAAAAAAAAAA"
		iv, err := base64.RawURLEncoding.DecodeString(s[:21] + "A")
		if err != nil || len(iv) != 16 {
			panic("ivSweep: " + prefix)
		}
		return iv
	}
	for b := 0; b < 256; b++ {
		iv := r.Bytes(16)
		iv[0] = byte(b)
		key, key2, plain := r.Bytes(32), r.Bytes(32), r.Bytes(8+r.IntN(24))
		for _, via := range []string{"crypto", "op"} {
			sealCase(w, key, key2, iv, plain, via, false, []string{"iv=first-byte"})
		}
	}
	for _, pre := range []string{"eyJ", "eyJhbGciOiJSUzI1NiJ9", "eyJ0eXAiOiJKV1Qi", "e30", "bnVsbA", "dHJ1ZQ", "ZmFsc2U", "W10", "IiI", "aHR0cHM6Ly8",
		"----", "____", "AAAA", "MDAw", "Li4u", "ey", "eyI", "eyK", "fyJ", "eXJ"} {
		iv := mk(pre)
		key, key2, plain := r.Bytes(32), r.Bytes(32), []byte(fmt.Sprintf("%x:user-%d", r.Bytes(8), r.IntN(1000)))
		for _, via := range []string{"crypto", "op"} {
			sealCase(w, key, key2, iv, plain, via, false, []string{"iv=text-prefix"})
			sealCase(w, key, key2, iv, plain, via, true, []string{"iv=text-prefix"})
		}
	}
}

func main() {
	cfg := drv.Parse()
	r := drv.NewRand(cfg.Seed)
	w := emit.NewWriter(cfg.Out, "C12_spec", 0, cfg.Only)
	n := cfg.Count(240, 4000)
	codecCases(w, r, cfg.Count(520, 10000), !cfg.Quick)

	ivSweep(w, r)

	keyLens := []int{16, 24, 32, 16, 24, 32, 32, 32, 0, 15, 17, 31, 33, 64}
	for i := 0; i < n; i++ {
		kl := drv.Pick(r, keyLens)
		key := r.Bytes(kl)
		key2 := r.Bytes(drv.Pick(r, []int{16, 24, 32}))
		if r.Chance(1, 10) {
			key2 = append([]byte{}, key...)
		}
		if i%3 != 2 {
			// seal then open
			var pl int
			switch r.IntN(6) {
			case 0:
				pl = r.IntN(3)
			case 1:
				pl = 15 + r.IntN(3)
			case 2:
				pl = 31 + r.IntN(3)
			default:
				pl = r.IntN(80)
			}
			if i == 0 { // beyond 1 KiB (4 KiB in the thorough tier)
				pl = 1040
				if !cfg.Quick {
					pl = 4100
				}
			}
			plain := r.Bytes(pl)
			if i != 0 && r.Chance(1, 3) { // realistic "id:subject"
				plain = []byte(fmt.Sprintf("%x:%s", r.Bytes(8), "user-"+fmt.Sprint(r.IntN(1000))))
			}
			iv := r.Bytes(16)
			saved := crand.Reader
			crand.Reader = bytes.NewReader(iv)
			var ct string
			var err error
			var d1, d2 string
			var e1, e2 error
			p := drv.Catch(func() {
				ct, err = crypto.EncryptAES(string(plain), string(key))
				crand.Reader = saved
				if err == nil {
					d1, e1 = crypto.DecryptAES(ct, string(key))
					d2, e2 = crypto.DecryptAES(ct, string(key2))
				}
			})
			crand.Reader = saved
			var obs string
			var raw []byte
			switch {
			case p != "":
				obs = "OPanic"
			case err != nil:
				obs = emit.Ctor("OSeal", emit.None, emit.None, emit.None)
			default:
				raw, _ = base64.RawURLEncoding.DecodeString(ct)
				obs = emit.Ctor("OSeal", emit.Some(emit.Str(ct)), optBytes(d1, e1), optBytes(d2, e2))
			}
			in := emit.Ctor("ISeal", emit.Bytes(key), emit.Bytes(iv), emit.Bytes(plain), emit.Bytes(key2),
				table(key, append([][]byte{iv}, feedBlocks(raw)...)), table(key2, feedBlocks(raw)))
			w.Add(emit.Case{Input: in, Observed: obs,
				Tags:  []string{"kind=seal", fmt.Sprintf("keylen=%d", kl), fmt.Sprintf("plainblocks=%d", min(pl/16, 3))},
				Human: map[string]any{"key": key, "iv": iv, "plain": plain, "key2": key2, "ct": ct}})
		} else {
			// open an arbitrary / tampered string
			var s string
			kind := r.IntN(5)
			switch kind {
			case 0: // valid base64 of random bytes
				s = base64.RawURLEncoding.EncodeToString(r.Bytes(r.IntN(70)))
			case 1: // too short
				s = base64.RawURLEncoding.EncodeToString(r.Bytes(r.IntN(16)))
			case 2: // random printable junk incl. illegal characters, padding, newlines
				alphabet := "ABCxyz019-_+/=\n\r .%"
				b := make([]byte, r.IntN(40))
				for j := range b {
					b[j] = alphabet[r.IntN(len(alphabet))]
				}
				s = string(b)
			case 3: // valid ciphertext with a flipped bit
				var ctv string
				var err error
				if drv.Catch(func() { ctv, err = crypto.EncryptAES(string(r.Bytes(r.IntN(50))), string(r.Bytes(32))) }) != "" {
					err = fmt.Errorf("panic") // seen by the seal cases; here: open the empty string
				}
				if raw, derr := base64.RawURLEncoding.DecodeString(ctv); err == nil && derr == nil && len(raw) > 0 {
					raw[r.IntN(len(raw))] ^= byte(1 << r.IntN(8))
					s = base64.RawURLEncoding.EncodeToString(raw)
				}
			default: // length ≡ 1 mod 4 and embedded newline
				s = base64.RawURLEncoding.EncodeToString(r.Bytes(20 + r.IntN(20)))
				if r.Bool() {
					s = s[:len(s)/2] + "\n" + s[len(s)/2:]
				} else {
					s = s + "A"
				}
			}
			var d string
			var e error
			p := drv.Catch(func() { d, e = crypto.DecryptAES(s, string(key)) })
			obs := emit.Ctor("OOpen", optBytes(d, e))
			if p != "" {
				obs = "OPanic"
			}
			raw, _ := base64.RawURLEncoding.DecodeString(s)
			in := emit.Ctor("IOpen", emit.Bytes(key), emit.Str(s), table(key, feedBlocks(raw)))
			w.Add(emit.Case{Input: in, Observed: obs,
				Tags:  []string{"kind=open", fmt.Sprintf("keylen=%d", kl), fmt.Sprintf("openkind=%d", kind)},
				Human: map[string]any{"key": key, "s": s}})
		}
	}
	// round 11: constructors, getters, database / text / YAML / GQL codecs, ConcatenateJSON
	// (last, so that the case ids and the PRNG stream of the earlier cases stay as they were)
	ambiguous := extCases(w, r, cfg.Count(1, 10), !cfg.Quick)
	err := w.Close(emit.Meta{Property: "C12", Tier: cfg.Tier, Seed: cfg.Seed,
		Extra: map[string]any{"clock_ambiguous": ambiguous},
		Rule: "codec: generated values of the 8 claim/response types (custom keys colliding with registered names, nested actor chains of depth 0-4 with repeated parties / identical sub-chains / shared maps and shared *ActorClaims objects (acyclic), custom values of library types, nil/empty slices and maps; a quarter marshalled twice; fixed cases beyond 1 KiB / 4 KiB) through json.Marshal/Unmarshal of the real types, every library error or panic being an observed outcome; valid documents with members replaced by alternative/malformed forms fed to the real decoders (and re-marshalled when accepted); stand-alone Audience/Time/Bool/SpaceDelimitedArray/Locales decoders; the schema read off the struct tags. seal/open cases: random keys (valid and invalid lengths), IVs, plaintexts around block boundaries; arbitrary/tampered strings to DecryptAES. ext (round 11): NewLogoutTokenClaims on generated arguments (zero / sub-second / zoned expirations, positive and negative skews; clock bracket t0/t1, ambiguous cases dropped) then Marshal/Unmarshal; GetUserInfo of generated ID-token values; GetAddress; SpaceDelimitedArray.Scan of nil / string / []byte / Stringer / int / bool / float and Value->Scan; FromTime / AsTime / NowTime around the zero time and the epoch; RequestObject / JWTTokenRequest getters; every codec of ApplicationType / AccessTokenType (String, IsA, Marshal* for numbers in and out of range; <Type>String, UnmarshalText/JSON/YAML/GQL, Scan for declared names, case variants incl. U+0130 / U+212A / U+017F, near misses, wrong dynamic types, from several initial values); ConcatenateJSON on compactly rendered objects (shared keys, empty sides) and on texts that are not such objects. Non-trivial = model path class != 0 (anything but a wrong-key-length seal or a non-object document); distinct = distinct (input hash, path class).",
	})
	if err != nil {
		fmt.Fprintln(os.Stderr, err)
		os.Exit(2)
	}
}
