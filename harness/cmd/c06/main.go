// Driver for C06: every token the provider issues is well-formed and passes
// the library's own verifiers. One case = one token response of one flow on one
// router; the tokens are decoded, verified with the real rp.VerifyTokens /
// rp.VerifyIDToken / op.VerifyAccessToken against the served /keys document,
// opaque tokens are opened with the provider key and read back through the
// provider's own readers.
package main

import (
	"context"
	"crypto/aes"
	"crypto/ecdsa"
	"crypto/ed25519"
	"crypto/elliptic"
	"crypto/rsa"
	"crypto/sha256"
	"crypto/sha512"
	"encoding/base64"
	"encoding/json"
	"errors"
	"fmt"
	"math/big"
	"net/http"
	"net/url"
	"os"
	"sort"
	"strconv"
	"strings"
	"time"

	jose "github.com/go-jose/go-jose/v4"

	"verifharness/drv"
	"verifharness/emit"
	"verifharness/opfix"
	"verifharness/refstore"

	"github.com/zitadel/oidc/v3/pkg/client/rp"
	"github.com/zitadel/oidc/v3/pkg/crypto"
	"github.com/zitadel/oidc/v3/pkg/oidc"
	"github.com/zitadel/oidc/v3/pkg/op"
)

// ---------------------------------------------------------------- keys


func ecKey(curve elliptic.Curve, label string) *ecdsa.PrivateKey {
	r := opfix.DetReader("ec:" + curve.Params().Name + ":" + label)
	n := curve.Params().N
	for {
		b := make([]byte, (n.BitLen()+7)/8)
		r.Read(b)
		d := new(big.Int).SetBytes(b)
		if d.BitLen() > n.BitLen() {
			d.Rsh(d, uint(d.BitLen()-n.BitLen()))
		}
		if d.Sign() == 0 || d.Cmp(n) >= 0 {
			continue
		}
		k := &ecdsa.PrivateKey{D: d}
		k.Curve = curve
		k.X, k.Y = curve.ScalarBaseMult(d.Bytes())
		return k
	}
}

func pubOf(priv any) any {
	switch k := priv.(type) {
	case *rsa.PrivateKey:
		return &k.PublicKey
	case *ecdsa.PrivateKey:
		return &k.PublicKey
	case ed25519.PrivateKey:
		return k.Public()
	}
	return nil
}

// material: one key pair; id = its index in the pool (the model's k_mat / sk_mat)
type material struct {
	id   int
	priv any
	pub  any
	kty  string // Gallina constructor
}

// algDef: a signing algorithm and the two key materials the driver uses with it
// (RS256 and PS256 share the RSA materials on purpose).
type algDef struct {
	alg  jose.SignatureAlgorithm
	mats [2]material
}

// pubEntry: one key of Storage.KeySet as published
type pubEntry struct {
	kid string
	alg jose.SignatureAlgorithm
	use string
	m   material
}

// signState: what Storage.SigningKey / KeySet answer at one point of a history.
// KeySet = pre ++ [the signing key's public key with `use`] ++ post.
type signState struct {
	algIdx    int
	alg       jose.SignatureAlgorithm
	kid       string
	m         material
	use       string // "sig" or "" (RFC 7517: optional)
	pre, post []pubEntry
}

func (sk signState) self() pubEntry { return pubEntry{sk.kid, sk.alg, sk.use, sk.m} }

func (sk signState) published() []pubEntry {
	out := append([]pubEntry{}, sk.pre...)
	out = append(out, sk.self())
	return append(out, sk.post...)
}

func keyPool() (algs []algDef, pool []any) {
	rsa2, err := rsa.GenerateKey(opfix.DetReader("rsa-old"), 2048)
	if err != nil {
		panic(err)
	}
	privs := []struct {
		priv any
		kty  string
	}{
		{opfix.RSAKey(), "KRsa"}, {rsa2, "KRsa"},
		{opfix.ECKey("op-signing"), "KEc"}, {opfix.ECKey("op-old"), "KEc"},
		{ecKey(elliptic.P384(), "op-signing"), "KEc"}, {ecKey(elliptic.P384(), "op-old"), "KEc"},
		{ecKey(elliptic.P521(), "op-signing"), "KEc"}, {ecKey(elliptic.P521(), "op-old"), "KEc"},
		{opfix.EdKey("op-signing"), "KOkp"}, {opfix.EdKey("op-old"), "KOkp"},
	}
	mats := make([]material, len(privs))
	for i, x := range privs {
		mats[i] = material{id: i, priv: x.priv, pub: pubOf(x.priv), kty: x.kty}
		pool = append(pool, mats[i].pub)
	}
	algs = []algDef{
		{jose.RS256, [2]material{mats[0], mats[1]}},
		{jose.PS256, [2]material{mats[0], mats[1]}},
		{jose.ES256, [2]material{mats[2], mats[3]}},
		{jose.ES384, [2]material{mats[4], mats[5]}},
		{jose.ES512, [2]material{mats[6], mats[7]}},
		{jose.EdDSA, [2]material{mats[8], mats[9]}},
	}
	return
}

// stateOf: the signing state params p asks for. The same kid is used for
// different key material (and, with sharedKid, for different algorithms)
// across cases, providers and histories of this one process on purpose.
// Key-set shape: the signing key is published with use "sig" or without use;
// further keys before / after it: a previous key (other kid), an encryption key
// and a key of another type that share the signing key's kid, and - rarely, an
// inconsistent shape - another signature key of the same type under the same kid.
func stateOf(p params, algs []algDef) signState {
	a := algs[p.key]
	sk := signState{algIdx: p.key, alg: a.alg, m: a.mats[p.mat], kid: "sig-" + strings.ToLower(string(a.alg)), use: p.keyUse}
	if p.sharedKid {
		sk.kid = "sig-1"
	}
	add := func(front bool, e pubEntry) {
		if front {
			sk.pre = append(sk.pre, e)
		} else {
			sk.post = append(sk.post, e)
		}
	}
	otherType := algs[5] // EdDSA for RSA keys
	switch a.mats[0].kty {
	case "KEc":
		otherType = algs[0]
	case "KOkp":
		otherType = algs[2]
	}
	for _, sh := range p.shape {
		front := sh >= 10
		switch sh % 10 {
		case 1:
			add(front, pubEntry{"prev-" + strings.ToLower(string(a.alg)), a.alg, p.prevUse, a.mats[1-p.mat]})
		case 2:
			add(front, pubEntry{sk.kid, a.alg, "enc", a.mats[1-p.mat]})
		case 3:
			add(front, pubEntry{sk.kid, otherType.alg, "sig", otherType.mats[p.mat]})
		case 4:
			add(front, pubEntry{sk.kid, a.alg, "sig", a.mats[1-p.mat]}) // clash
		}
	}
	return sk
}

func applyKey(st *refstore.Store, sk signState) {
	st.Signing = &refstore.SigningKey{KID: sk.kid, Alg: sk.alg, Priv: sk.m.priv}
	entries := sk.published()
	st.SetKeySet(func() []op.Key {
		out := make([]op.Key, len(entries))
		for i, e := range entries {
			out[i] = &refstore.PublicKey{KID: e.kid, Alg: e.alg, UseStr: e.use, Pub: e.m.pub}
		}
		return out
	})
}

var allAlgs = []jose.SignatureAlgorithm{jose.RS256, jose.PS256, jose.ES256, jose.ES384, jose.ES512, jose.EdDSA,
	jose.RS384, jose.RS512, jose.PS384, jose.PS512, jose.HS256}

// staticKeySet verifies against a parsed JWKS document the way op.OpenIDKeySet does
// against storage keys (FindMatchingKey with use=sig).
type staticKeySet struct{ keys []jose.JSONWebKey }

func (s staticKeySet) VerifySignature(ctx context.Context, jws *jose.JSONWebSignature) ([]byte, error) {
	keyID, alg := oidc.GetKeyIDAndAlg(jws)
	key, err := oidc.FindMatchingKey(keyID, oidc.KeyUseSignature, alg, s.keys...)
	if err != nil {
		return nil, fmt.Errorf("invalid signature: %w", err)
	}
	return jws.Verify(&key)
}

func samePub(a, b any) bool {
	type eq interface{ Equal(x any) bool } // not used: compare via marshalled JWK
	ja, e1 := json.Marshal(jose.JSONWebKey{Key: a})
	jb, e2 := json.Marshal(jose.JSONWebKey{Key: b})
	return e1 == nil && e2 == nil && string(ja) == string(jb)
}

// ---------------------------------------------------------------- case parameters

type params struct {
	router   opfix.Router
	flow     string
	cid      string // the client: "web" or "desk" (same registration under another id)
	issuer   string // the issuer of this case's requests
	dynIssuer bool  // the issuer is derived from every request (issMode != "static")
	issMode  string // static | host (op.IssuerFromHost) | forwarded (op.IssuerFromForwardedOrHost) | custom (... WithIssuerFromCustomHeaders)
	atIDSuffix string // the storage's access-token ids are "at<n>" + this (no ':')
	sweep     int   // >= 0: slot of the Unicode sweep (subject unicodeSubjects[sweep], opaque token, a flow that reads it back)
	uiSplit   bool  // storage style: SetUserinfoFromScopes does the standard claims, the optional SetUserinfoFromRequest only adds the custom ones
	uiReplace bool  // storage style: SetUserinfoFrom* REPLACE the destination struct instead of setting fields of it
	upstream string // forwarded / custom: the Host the provider sees behind the proxy; "" = the request arrives directly (no header: fallback to Host)
	customs  []string // the custom:<name> scopes added to the request (claim-name dimension)
	key      int
	mat      int  // which of the algorithm's two key materials signs
	sharedKid bool // kid "sig-1" (shared by every algorithm) instead of "sig-<alg>"
	keyUse   string // use of the published signing key: "sig" or ""
	prevUse  string
	clash    bool   // the key set holds another signature key of the same type under the signing kid
	shape    []int  // further published keys (see stateOf); +10 = before the signing key
	jwtAT    bool
	skew     int64
	idLife   int64
	atLife   int64
	assert   bool
	refreshGrant bool
	scopes   []string
	narrowed []string // refresh / token exchange: scope parameter of the final request (nil = none)
	// refresh: the request under test ends a HISTORY of refresh requests on one grant
	earlier    []earlierReq // requests made on the grant before the one under test (within this case)
	grant      *grantState  // shared by the cases of a refresh_chain history: the grant all of them work on (nil = a fresh one)
	liveGrants bool         // storage style: TokenRequestByRefreshToken hands out the LIVE stored record (SetCurrentScopes writes into it)
	prePoll    bool         // device: the client polls once before the user has approved (authorization_pending)
	preBadRedirect bool     // code: the code is first presented with another redirect_uri (refused), then properly
	dropID   []string
	dropAT   []string
	subject  string
	aud      []string // nil = storage default
	nonce    string
	acr      string
	amr      []string
	authAgo  int64 // auth time = now - authAgo; -1 = zero time
	state    string
	teSubjectType string // token exchange: which token is presented
	teAudience []string
	// token-exchange storage policy of the fixture (refstore.TEPolicy): what ValidateTokenExchangeRequest
	// does to the request - the REQUEST's subject / scopes then differ from the presented token's
	tePolSub    string // "" = keep; else request.SetSubject(tePolSub) (impersonation)
	tePolEmpty  bool   // request.SetCurrentScopes([])
	teDropScope bool   // the request also asks for scope "drop", which the storage removes
	teActor     string // "" = none; else an actor_token (refresh token) of this user is presented
	// verification
	offset  int64
	vAlgs   []string // nil = library default
	atAlgs  []string
	vNonce  bool // relying party checks the nonce
	vACR    []string
}

const (
	redirect = "https://web.example.com/cb"
	otherKey = "0123456789abcdef0123456789abcdef"
)

var flows = []string{"code", "implicit_id", "implicit_tok", "refresh", "device", "cc", "jwt_bearer", "te_access", "te_refresh", "te_id"}

var subjects = []string{"alice", "bob", "alice", "tenant:alice", "a:b:c", ":lead", "trail:", "nobody", "user@example.com",
	"Alice", "alice ", " bob", "null", "de\u017fk", "0"} // case / white-space neighbours of other subjects, keyword-like values

// unicodeSubjects: subjects (and token-id suffixes) over the whole Unicode range, so that every
// UTF-8 continuation byte 0x80-0xBF and every lead-byte class occurs: U+0080-U+00FF eight code
// points at a time (C1 controls incl. U+0085, NBSP, soft hyphen U+00AD, every Latin-1 letter),
// Latin Extended, Greek, Cyrillic, Hebrew / Arabic, CJK, Hangul, emoji with ZWJ and variation
// selector, combining marks, BOM, U+2028, the boundaries of the 2- / 3- / 4-byte forms, and the
// colon cases. None contains ':' except the last three.
var unicodeSubjects = func() []string {
	out := []string{}
	for base := 0x80; base < 0x100; base += 8 {
		s := "u"
		for c := base; c < base+8; c++ {
			s += string(rune(c))
		}
		out = append(out, s)
	}
	return append(out,
		"\u0141\u00f3d\u017a \u0130\u015ftvan \u017d\u00e1k \u00d8\u00df\u00ed", // Latin Extended-A, Ö ß í neighbours
		"\u0391\u03b8\u03ae\u03bd\u03b1 \u041c\u043e\u0441\u043a\u0432\u0430 \u0429\u0451\u0457",
		"\u05e9\u05dc\u05d5\u05dd \u0645\u0631\u062d\u0628\u0627",
		"\u4e2d\u6587\u7528\u6237 \u65e5\u672c\u8a9e \ud55c\uad6d\uc5b4",
		"\U0001F600\U0001F469\u200d\U0001F4BB\u2764\ufe0f",
		"e\u0301 a\u0308\u0323 \u1e69 n\u0303",
		"\ufeffbom \u00a0nbsp \u0085nel \u00adshy \u2028ls \u200bzw",
		"\u007f\u0080\u07ff\u0800\uffff\U00010000\U0010FFFF\ufffd",
		"\u00d6:\u00df", ":\u0141\u00f3d\u017a", "\u4e2d:\u6587:")
}()

var sweepFlows = []string{"code", "implicit_tok", "refresh", "device", "te_access", "te_refresh", "code", "device"}

var scopeSets = [][]string{
	{"openid"},
	{"openid", "profile"},
	{"openid", "profile", "email"},
	{"openid", "email", "offline_access"},
	{"openid", "profile", "email", "offline_access", "custom:x"},
	{"openid", "custom:x", "custom:y"},
	{"openid", "offline_access"},
	{"profile", "email"},
	{"offline_access", "custom:x"},
	{"email", "openid", "profile", "custom:y", "offline_access"},
	{"openid", "address"},
	{"openid", "phone", "address", "offline_access"},
	{"openid", "profile", "email", "phone", "address"},
	{"address", "openid", "custom:x", "phone", "offline_access", "profile"},
	{"phone", "address"},
}

func contains(l []string, s string) bool {
	for _, x := range l {
		if x == s {
			return true
		}
	}
	return false
}

func without(l, drop []string) []string {
	out := []string{}
	for _, x := range l {
		if !contains(drop, x) {
			out = append(out, x)
		}
	}
	return out
}

func subset(r drv.Rand, l []string) []string {
	out := []string{}
	for _, x := range l {
		if r.Chance(2, 3) {
			out = append(out, x)
		}
	}
	return out
}

// ---- near misses of an identifier (client id in audiences): case variants, Unicode
// simple-fold variants (U+017F long s for s, U+212A Kelvin sign for k), white space
// around it, trailing slash. None of them is the identifier.
func nearMisses(id string) []string {
	out := []string{strings.ToUpper(id), strings.ToUpper(id[:1]) + id[1:], id[:len(id)-1] + strings.ToUpper(id[len(id)-1:]),
		id + " ", " " + id, id + "/", id + "\t", id + "\n", id + "%20", id + "+"}
	if strings.ContainsAny(id, "sS") {
		out = append(out, strings.NewReplacer("s", "\u017f", "S", "\u017f").Replace(id))
	}
	if strings.ContainsAny(id, "kK") {
		out = append(out, strings.NewReplacer("k", "\u212a", "K", "\u212a").Replace(id))
	}
	return out
}

// foldVariants: names that differ from name only by case folding: ASCII case (first list) and
// the Unicode simple folds U+017F long s = s, U+212A Kelvin sign = k (second list).
func foldVariants(name string) (ascii, unicode []string) {
	ascii = []string{strings.ToUpper(name), strings.ToUpper(name[:1]) + name[1:], name[:len(name)-1] + strings.ToUpper(name[len(name)-1:])}
	for i, c := range name {
		switch c {
		case 's':
			unicode = append(unicode, name[:i]+"\u017f"+name[i+1:], strings.ToUpper(name[:i])+"\u017f"+name[i+1:])
		case 'k':
			unicode = append(unicode, name[:i]+"\u212a"+name[i+1:], name[:i]+"\u212a"+strings.ToUpper(name[i+1:]))
		}
	}
	if strings.Count(name, "s") > 1 {
		unicode = append(unicode, strings.ReplaceAll(name, "s", "\u017f"))
	}
	return
}

func pickVariant(r drv.Rand, name string) string {
	a, u := foldVariants(name)
	if len(u) > 0 && r.Chance(3, 5) {
		return drv.Pick(r, u)
	}
	return drv.Pick(r, a)
}

// audienceFor: what a storage may define as the audience of a request of client cid.
// nil = the storage's default.
func audienceFor(r drv.Rand, cid string) []string {
	const api = "https://api.example.com"
	near := func() string { return drv.Pick(r, nearMisses(cid)) }
	switch r.IntN(12) {
	case 0:
		return []string{api}
	case 1:
		return []string{api, cid}
	case 2:
		return []string{}
	case 3:
		return []string{near()}
	case 4:
		return []string{near(), api}
	case 5:
		return []string{api, near(), near()}
	case 6:
		return []string{near(), cid}
	case 7:
		return []string{cid, near(), cid}
	}
	return nil
}

// customNameScopes: the claim-name dimension. The storage turns a scope custom:<n> into the
// claim <n> (private claim of a JWT access token, userinfo claim of an ID token); <n> is any
// string. Drawn here: exact names, ASCII-case variants and Unicode simple-fold variants of the
// registered claim names THIS case's tokens are certain to carry (a variant of a member that
// is not written would be read as that member by encoding/json - the storage asserting, say,
// its own nonce; not generated), near misses that fold to no member, and names of members
// that neither token type decodes into an observed field (sid, scope).
func customNameScopes(r drv.Rand, p params) []string {
	atCarries := p.jwtAT && (p.flow == "code" || p.flow == "implicit_tok" || p.flow == "refresh" || p.flow == "device" || p.flow == "cc")
	authFlow := p.flow == "code" || p.flow == "implicit_id" || p.flow == "implicit_tok"
	base := []string{"iss", "sub", "aud", "exp", "iat", "client_id"}
	if !atCarries {
		base = append(base, "azp")
		if authFlow && p.nonce != "" {
			base = append(base, "nonce")
		}
		if authFlow && p.acr != "" {
			base = append(base, "acr")
		}
		if p.flow == "code" || p.flow == "implicit_tok" || p.flow == "refresh" || p.flow == "device" {
			base = append(base, "at_hash")
		}
		if p.flow == "code" {
			base = append(base, "c_hash")
		}
		if (authFlow || p.flow == "refresh") && p.authAgo >= 0 {
			base = append(base, "auth_time")
		}
		if (authFlow || p.flow == "refresh") && (p.amr == nil || len(p.amr) > 0) {
			base = append(base, "amr")
		}
	}
	if p.flow == "cc" {
		base = append(base, "nbf", "jti")
	}
	names := []string{}
	for n := 1 + r.IntN(2); n > 0; n-- {
		b := drv.Pick(r, base)
		if r.Chance(1, 3) {
			b = drv.Pick(r, []string{"iss", "sub", "client_id"}) // members with an s / a k in their name
		}
		switch r.IntN(8) {
		case 0:
			names = append(names, b) // the exact name: the registered value wins
		case 1:
			names = append(names, drv.Pick(r, []string{b + "2", b[:len(b)-1], "x" + b, b + "_", strings.ToUpper(b) + "S", "tenant", "\u017f", "\u212a"})) // folds to no member
		case 2:
			names = append(names, pickVariant(r, drv.Pick(r, []string{"sid", "scope"})))
		default:
			names = append(names, pickVariant(r, b))
		}
	}
	out := []string{}
	for _, n := range names {
		if sc := "custom:" + n; !contains(out, sc) {
			out = append(out, sc)
		}
	}
	return out
}

var issuerHosts = []string{"op.example.com", "tenant-a.example.com", "login.example.org:8443", "b.tenant.example.net", "Tenant-B.Example.COM"}

// ---------------------------------------------------------------- refresh histories

// earlierReq: one refresh request on a grant. owner = made by the client the grant belongs to
// (else: the OTHER client presents the token with its own credentials); scopes = its scope
// parameter (nil = none).
type earlierReq struct {
	owner  bool
	scopes []string
}

// grantState: one refresh grant as the TEST SIDE knows it: the scopes the user authorized (g0,
// copied from the stored refresh token right after the code flow, before any refresh request),
// the request's fixed members, every refresh request made on it so far, and the refresh token
// that is valid now (the driver follows the rotation by the responses).
type grantState struct {
	token string
	g0    []string
	sub   string
	aud   []string
	amr   []string
	auth  int64
	hist  []earlierReq
}

func subsetOf(a, b []string) bool {
	for _, x := range a {
		if !contains(b, x) {
			return false
		}
	}
	return true
}

// standing: test-side mirror (tags, user lookup, generator only - the case's ground truth is
// computed in Coq from g0 / history / scope parameter): the scopes the valid token stands for.
func standing(g0 []string, hist []earlierReq) []string {
	cur := g0
	for _, e := range hist {
		if e.owner && len(e.scopes) > 0 && subsetOf(e.scopes, cur) {
			cur = e.scopes
		}
	}
	return cur
}

var neverGranted = []string{"phone", "email", "profile", "address", "custom:x", "custom:y", "custom:never", "openid", "offline_access", "admin", "custom:iss"}

// beyond: a scope parameter that asks for more than cur: a subset of cur plus one scope outside it
// (one the authorization had and an earlier request narrowed away, or one that was never granted)
func beyond(r drv.Rand, cur, g0 []string) []string {
	out := subset(r, cur)
	cands := []string{}
	for _, x := range g0 {
		if !contains(cur, x) {
			cands = append(cands, x, x)
		}
	}
	for _, x := range neverGranted {
		if !contains(cur, x) {
			cands = append(cands, x)
		}
	}
	extra := drv.Pick(r, cands)
	if r.Bool() {
		return append([]string{extra}, out...)
	}
	return append(out, extra)
}

// genRefreshStep draws one refresh request relative to what the token stands for (cur):
// by the owner without scope / within cur (accepted, narrows) / beyond cur (refused), or by the
// other client with a scope parameter that would have been acceptable / beyond / none (refused).
func genRefreshStep(r drv.Rand, cur, g0 []string, refusedMostly bool) earlierReq {
	k := r.IntN(6)
	if refusedMostly && k < 2 && r.Chance(2, 3) {
		k = 2 + r.IntN(2)
	}
	switch k {
	case 0:
		return earlierReq{owner: true}
	case 1:
		if sub := subset(r, cur); len(sub) > 0 {
			return earlierReq{owner: true, scopes: sub}
		}
		return earlierReq{owner: true, scopes: append([]string{}, cur...)}
	case 2, 3:
		return earlierReq{owner: true, scopes: beyond(r, cur, g0)}
	case 4:
		if sub := subset(r, cur); len(sub) > 0 {
			return earlierReq{owner: false, scopes: sub}
		}
		return earlierReq{owner: false}
	default:
		return earlierReq{owner: false, scopes: beyond(r, cur, g0)}
	}
}

// genFinalScopes: the scope parameter of the request under test: none (1/2), all of cur, a subset,
// rarely beyond cur (the request under test is then refused: nothing may be issued)
func genFinalScopes(r drv.Rand, cur, g0 []string) []string {
	switch r.IntN(12) {
	case 0, 1, 2:
		if sub := subset(r, cur); len(sub) > 0 {
			return sub
		}
		return nil
	case 3, 4:
		return append([]string{}, cur...)
	case 5:
		return beyond(r, cur, g0)
	}
	return nil
}

// histSlot: the parameters open a multi-issuance history (JWT access tokens are preferred there:
// only then does one response make two Storage.SigningKey calls)
func gen(r drv.Rand, i int, nKeys int, histSlot bool, sweep int) params {
	p := params{sweep: sweep}
	p.cid = drv.Pick(r, []string{"web", "web", "desk"})
	p.issuer = opfix.Issuer
	// every grant x router also under an issuer that is derived from each request
	// - from its Host, or from the Forwarded / a custom header a reverse proxy sets while every
	// external host arrives with the SAME upstream Host
	p.issMode = "static"
	if blk := (i / (2 * len(flows))) % 4; blk%2 == 1 || r.Chance(1, 4) {
		p.dynIssuer = true
		p.issuer = "https://" + drv.Pick(r, issuerHosts)
		p.issMode = "host"
		if blk == 3 || (blk%2 == 0 && r.Bool()) {
			p.issMode = drv.Pick(r, []string{"forwarded", "forwarded", "custom"})
			if r.Chance(3, 4) {
				p.upstream = proxyUpstream
			}
		}
	}
	p.uiReplace = r.Chance(1, 3)
	p.uiSplit = r.Chance(1, 2)
	p.router = opfix.Router(i % 2)
	p.flow = flows[(i/2)%len(flows)]
	if sweep >= 0 {
		p.flow = sweepFlows[sweep%len(sweepFlows)]
	}
	p.key = (i / (2 * len(flows)) + i) % nKeys
	if r.Chance(1, 3) {
		p.key = r.IntN(nKeys)
	}
	p.mat = r.IntN(2)
	p.sharedKid = r.Bool()
	p.keyUse = drv.Pick(r, []string{"sig", "sig", ""})
	p.prevUse = drv.Pick(r, []string{"sig", ""})
	for _, sh := range []int{1, 2, 3} {
		if r.Chance(1, 4) {
			p.shape = append(p.shape, sh+10*r.IntN(2))
		}
	}
	if r.Chance(1, 25) {
		p.shape = append(p.shape, 4+10*r.IntN(2))
		p.clash = true
	}
	p.jwtAT = r.Bool()
	if histSlot && r.Chance(1, 2) {
		p.jwtAT = true
	}
	if sweep >= 0 {
		p.jwtAT = sweep%5 == 4 // mostly the opaque form: AES(tokenID ":" subject), read back by the provider
	}
	if r.Chance(1, 5) || (sweep >= 0 && sweep%2 == 1) {
		p.atIDSuffix = "-" + strings.ReplaceAll(drv.Pick(r, unicodeSubjects[:len(unicodeSubjects)-3]), " ", "")
	}
	p.skew = drv.Pick(r, []int64{0, 0, 30, -30})
	p.idLife = drv.Pick(r, []int64{40, 600, 3600, 3600})
	p.atLife = drv.Pick(r, []int64{45, 300, 300, 3600})
	p.assert = r.Bool()
	p.refreshGrant = r.Chance(3, 4)
	p.scopes = append([]string{}, drv.Pick(r, scopeSets)...)
	if x := drv.Pick(r, []string{"", "", "phone", "address", "email", "profile"}); x != "" && !contains(p.scopes, x) {
		p.scopes = append(p.scopes, x)
	}
	if r.Chance(1, 4) {
		p.dropID = []string{drv.Pick(r, []string{"email", "profile", "custom:x", "address", "phone"})}
	}
	if r.Chance(1, 4) {
		p.dropAT = []string{drv.Pick(r, []string{"custom:x", "custom:y", "email", "address"})}
	}
	p.subject = drv.Pick(r, subjects)
	if r.Chance(1, 6) {
		p.subject = drv.Pick(r, unicodeSubjects)
	}
	if sweep >= 0 {
		p.subject = unicodeSubjects[sweep%len(unicodeSubjects)]
	}
	p.aud = audienceFor(r, p.cid)
	if r.Chance(3, 4) {
		p.nonce = drv.Pick(r, []string{"n-0S6_WzA2Mj", "nonce with space", "n\"q", "n-0S6_WzA2Mj", " lead", "trail ", "null", "0", "false",
			strings.Repeat("n1024-", 200), strings.Repeat("N4k.", 1100)}) // also white space at the ends, keyword-like values, longer than 1 KiB / 4 KiB
	}
	if r.Chance(1, 3) {
		p.acr = drv.Pick(r, []string{"urn:acr:mfa", "1", "urn:acr:mfa", "0", "null"})
	}
	if r.Chance(1, 2) {
		p.amr = drv.Pick(r, [][]string{{"pwd", "otp"}, {"hwk"}, {}})
	}
	p.authAgo = drv.Pick(r, []int64{1, 1, 60, 3000, -1, -1, 0, 34560000}) // zero time (no authentication recorded), just now, 400 days ago
	p.state = drv.Pick(r, []string{"st-1", "xyz.~-_", "", "st-1", "null", "0", " st ", "[]", strings.Repeat("s", 1500)})
	p.teSubjectType = drv.Pick(r, []string{"refresh", "id", "jwt"})
	if r.Chance(1, 2) {
		p.teAudience = audienceFor(r, p.cid)
	}
	if r.Chance(1, 2) {
		p.tePolSub = drv.Pick(r, []string{"bob", "alice", "tenant:alice", "ghost", "Alice", "a:b:c", "web"})
	}
	if sweep >= 0 && p.tePolSub != "" { // the retargeted subject of an exchange: Unicode as well
		p.tePolSub = unicodeSubjects[(sweep+7)%len(unicodeSubjects)]
	}
	p.tePolEmpty = r.Chance(1, 8)
	p.teDropScope = r.Chance(1, 4)
	if r.Chance(1, 3) {
		p.teActor = drv.Pick(r, []string{"bob", "alice", "tenant:alice", "user@example.com", "de\u017fk"})
	}
	// flow-specific adjustments so that the flow can succeed
	switch p.flow {
	case "implicit_id", "implicit_tok":
		if p.nonce == "" {
			p.nonce = "n-implicit"
		}
	case "refresh":
		p.refreshGrant = true
		if !contains(p.scopes, "offline_access") {
			p.scopes = append(p.scopes, "offline_access")
		}
	case "te_access", "te_refresh", "te_id":
		p.refreshGrant = true
		if !contains(p.scopes, "offline_access") {
			p.scopes = append(p.scopes, "offline_access")
		}
		if !contains(p.scopes, "openid") {
			p.scopes = append([]string{"openid"}, p.scopes...)
		}
		if r.Chance(3, 4) {
			p.narrowed = append([]string{}, drv.Pick(r, scopeSets)...)
		}
	case "jwt_bearer":
		p.subject = "pkjwt"
	case "cc":
		p.subject = p.cid
	}
	// claim names: half of the cases carry custom scopes whose claim names are near a registered name
	if r.Chance(1, 2) {
		p.customs = customNameScopes(r, p)
		p.scopes = append(p.scopes, p.customs...)
		if strings.HasPrefix(p.flow, "te_") && p.narrowed != nil {
			p.narrowed = append(p.narrowed, p.customs...)
		}
	}
	// refresh: the request under test ends a history of 0-3 earlier requests on the grant
	p.liveGrants = r.Bool()
	if p.flow == "refresh" {
		cur := p.scopes
		for n := drv.Pick(r, []int{0, 0, 1, 1, 2, 3}); n > 0; n-- {
			e := genRefreshStep(r, cur, p.scopes, false)
			p.earlier = append(p.earlier, e)
			cur = standing(cur, []earlierReq{e})
		}
		p.narrowed = genFinalScopes(r, cur, p.scopes)
	}
	p.prePoll = r.Chance(1, 3)
	p.preBadRedirect = r.Chance(1, 4)
	// verification: mostly the consistent configuration
	alg := string(allAlgs[p.key])
	p.vAlgs = []string{alg}
	p.atAlgs = []string{alg}
	p.offset = 1
	if p.skew < 0 {
		p.offset = drv.Pick(r, []int64{30, 31, 30, 1})
	} else if r.Chance(1, 6) {
		p.offset = drv.Pick(r, []int64{5, 30})
	}
	if r.Chance(1, 8) {
		p.vAlgs = nil // library default: RS256, ES256, PS256
	} else if r.Chance(1, 6) {
		p.vAlgs = []string{"RS256", alg, "ES256"}
	}
	if r.Chance(1, 8) {
		p.atAlgs = nil
	}
	p.vNonce = r.Chance(5, 6)
	if p.acr != "" && r.Chance(1, 2) {
		p.vACR = []string{"urn:acr:mfa", "1"}
	}
	return p
}

// ---------------------------------------------------------------- running a flow

type result struct {
	status   int
	panicked string
	access   string // access_token ("" = none)
	idToken  string
	idAsAccess bool
	refresh  string
	expiresIn int64
	scope    []string
	state    string
	tokenType string
	issuedType string

	// ground truth gathered while preparing
	code      string
	client    string
	rqSub     string
	rqAud     []string
	rqScopes  []string
	rqNonce   string
	rqACR     string
	rqAMR     []string
	rqAuth    int64
	rqActor   string
	// refresh: the history the request under test ends (ground truth for the case input)
	g0        []string
	earlier   []earlierReq
	requested []string
	seq       int
	t0, t1    time.Time
	newTokens []*refstore.Token
}

func waitPhase() {
	for {
		ns := time.Now().Nanosecond()
		if ns > 1_000_000 && ns < 800_000_000 {
			return
		}
		time.Sleep(time.Duration(1_002_000_000-ns) % time.Second)
	}
}

func tokenIDs(st *refstore.Store) map[string]bool {
	m := map[string]bool{}
	for _, id := range st.SortedTokenIDs() {
		m[id] = true
	}
	return m
}

func unixOrZero(t time.Time) int64 {
	if t.IsZero() {
		return 0
	}
	return t.Unix()
}

func signAssertion(key any, iss string, aud []string) string {
	signer, err := jose.NewSigner(jose.SigningKey{Algorithm: jose.ES256, Key: key}, (&jose.SignerOptions{}).WithHeader("kid", "k1"))
	if err != nil {
		panic(err)
	}
	now := time.Now()
	payload := fmt.Sprintf(`{"iss":%q,"sub":%q,"aud":[%q],"iat":%d,"exp":%d}`, iss, iss, aud[0], now.Add(-time.Second).Unix(), now.Add(time.Hour).Unix())
	jws, err := signer.Sign([]byte(payload))
	if err != nil {
		panic(err)
	}
	s, _ := jws.CompactSerialize()
	return s
}

func dropFn(drop []string) func([]string) []string {
	if len(drop) == 0 {
		return nil
	}
	return func(s []string) []string { return without(s, drop) }
}

// tePolicies: the token-exchange policy the fixture of a store was built with (zero = plain refstore.TE)
var tePolicies = map[*refstore.Store]refstore.TEPolicy{}

// setup builds store + fixture. provAlgs: what the provider's own verifiers allow
// (the signing algorithm; every algorithm of the history when the key will change).
func setup(p params, sk signState, provAlgs []string) (*refstore.Store, *opfix.Fixture) {
	st := opfix.NewStd()
	st.EnableRichClaims()             // every standard scope yields a claim group (refstore/ext_c06.go)
	st.EnableCustomUserinfoClaims()   // custom:<n> also yields the userinfo claim <n> (ID tokens)
	if p.uiSplit {
		st.EnableUserinfoSplit() // real work in BOTH userinfo hooks, the optional one relying on the first
	}
	if p.uiReplace {
		st.EnableUserinfoReplace() // the storage assigns a whole record to the userinfo it is handed
	}
	applyKey(st, sk)
	desk := *st.Clients["web"] // the same registration under an id with s and k in it
	desk.ID, desk.Secret = "desk", "desk-secret"
	st.Clients["desk"] = &desk
	st.SetAccessTokenIDSuffix(p.atIDSuffix)
	st.SetLiveRefreshGrants(p.liveGrants) // refstore/ext_c07.go: SetCurrentScopes of a refresh request writes into the stored token
	for _, s := range append(append([]string{}, subjects...), unicodeSubjects...) {
		if s != "nobody" && st.Users[s] == nil {
			st.Users[s] = &refstore.User{Subject: s, Name: "N " + s, Email: "e@" + strings.ReplaceAll(s, ":", ".")}
		}
	}
	st.Users["web"] = &refstore.User{Subject: "web", Name: "Service web", Email: "web@svc.example.com"}
	st.Users["desk"] = &refstore.User{Subject: "desk", Name: "Service desk", Email: "desk@svc.example.com"}
	st.Users["pkjwt"] = &refstore.User{Subject: "pkjwt", Name: "Service pkjwt", Email: "pkjwt@svc.example.com"}
	configure(st, p)
	var key [32]byte
	copy(key[:], "c06-provider-crypto-key-32-bytes")
	o := opfix.Options{Issuer: p.issuer, CryptoKey: key, ProviderOpts: []op.Option{
		op.WithAccessTokenVerifierOpts(op.WithSupportedAccessTokenSigningAlgorithms(provAlgs...)),
		op.WithIDTokenHintVerifierOpts(op.WithSupportedIDTokenHintSigningAlgorithms(provAlgs...)),
	}}
	var f *opfix.Fixture
	var err error
	issuerFn := op.StaticIssuer(p.issuer)
	switch p.issMode {
	case "host": // the issuer of every request is https://<Host of that request>
		issuerFn = op.IssuerFromHost("")
	case "forwarded": // ... https://<host parameter of the Forwarded header>, else Host
		issuerFn = op.IssuerFromForwardedOrHost("")
	case "custom": // ... of the custom header only
		issuerFn = op.IssuerFromForwardedOrHost("", op.WithIssuerFromCustomHeaders(customFwdHeader))
	}
	if pol := (refstore.TEPolicy{Subject: p.tePolSub, EmptyScopes: p.tePolEmpty}); pol.Subject != "" || pol.EmptyScopes {
		// a storage whose ValidateTokenExchangeRequest retargets the request (refstore/ext_c15.go)
		tePolicies[st] = pol
		f, err = opfix.NewWithStorage(st, st.AsStorageTEPolicy(pol), o, issuerFn)
	} else {
		f, err = opfix.NewWithIssuer(st, o, issuerFn)
	}
	if err != nil {
		panic(err)
	}
	// every request passes the "reverse proxy" (a no-op unless the case says otherwise)
	cfg := &proxyCfg{}
	proxies[f] = cfg
	for i := range f.Handlers {
		f.Handlers[i] = &proxy{inner: f.Handlers[i], cfg: cfg}
	}
	return st, f
}

// The reverse proxy in front of the provider. The driver addresses every request to the EXTERNAL
// host (https://<external><path>); for the forwarded / custom issuer strategies the proxy moves that
// host into the Forwarded (custom) header and hands the request on with its own upstream Host - the
// same for every external host.
const (
	proxyUpstream   = "op.internal:8080"
	customFwdHeader = "X-Tenant-Forwarded"
)

type proxyCfg struct{ header, upstream string }

type proxy struct {
	inner http.Handler
	cfg   *proxyCfg
}

func (p *proxy) ServeHTTP(w http.ResponseWriter, r *http.Request) {
	if p.cfg.header != "" && p.cfg.upstream != "" {
		r.Header.Set(p.cfg.header, `for=192.0.2.7;host="`+r.Host+`";proto=https`)
		r.Host = p.cfg.upstream
	}
	p.inner.ServeHTTP(w, r)
}

var proxies = map[*opfix.Fixture]*proxyCfg{}

var allGrants = []oidc.GrantType{oidc.GrantTypeCode, oidc.GrantTypeRefreshToken, oidc.GrantTypeClientCredentials,
	oidc.GrantTypeBearer, oidc.GrantTypeTokenExchange, oidc.GrantTypeDeviceCode, oidc.GrantTypeImplicit}

// configure applies the client-side parameters of p to the three clients of the store
// (also between two issuances of a history).
func configure(st *refstore.Store, p params) {
	for _, id := range []string{"web", "desk", "pkjwt"} {
		c := st.Clients[id]
		c.ATType = op.AccessTokenTypeBearer
		if p.jwtAT {
			c.ATType = op.AccessTokenTypeJWT
		}
		c.Skew = time.Duration(p.skew) * time.Second
		c.IDLife = time.Duration(p.idLife) * time.Second
		c.ATLife = time.Duration(p.atLife) * time.Second
		c.IDTokenUserinfo = p.assert
		c.AllowedScopes = append([]string{"custom:x", "custom:y"}, p.customs...)
		c.RestrictIDScopes = dropFn(p.dropID)
		c.RestrictATScopes = dropFn(p.dropAT)
		g := []oidc.GrantType{}
		for _, x := range allGrants {
			if x != oidc.GrantTypeRefreshToken || p.refreshGrant {
				g = append(g, x)
			}
		}
		c.Grants = g
	}
	st.SetJWTProfileTokenType(op.AccessTokenTypeBearer)
	if p.jwtAT {
		st.SetJWTProfileTokenType(op.AccessTokenTypeJWT)
	}
}

// authorize runs /authorize + login + adjustments, returns the auth request id.
func authorize(p params, st *refstore.Store, f *opfix.Fixture, respType string) string {
	q := url.Values{"client_id": {p.cid}, "redirect_uri": {redirect}, "response_type": {respType},
		"scope": {strings.Join(p.scopes, " ")}}
	if p.state != "" {
		q.Set("state", p.state)
	}
	if p.nonce != "" {
		q.Set("nonce", p.nonce)
	}
	_, id := f.Authorize(p.router, q)
	if id == "" {
		return ""
	}
	st.Login(id, p.subject)
	ar := st.AuthReqs[id]
	ar.ACR = p.acr
	if p.amr != nil {
		ar.AMR = p.amr
	}
	ar.Audience = p.aud
	if p.authAgo < 0 {
		ar.AuthTime = time.Time{}
	} else {
		ar.AuthTime = time.Unix(time.Now().Unix()-p.authAgo, 0)
	}
	return id
}

func fromAuthRequest(res *result, ar *refstore.AuthRequest) {
	res.rqSub, res.rqAud, res.rqScopes = ar.Subject, ar.GetAudience(), ar.Scopes
	res.rqNonce, res.rqACR, res.rqAMR, res.rqAuth = ar.Nonce, ar.ACR, ar.GetAMR(), unixOrZero(ar.AuthTime)
}

func basic(p params) []string { return []string{p.cid, p.cid + "-secret"} }

// codeFlow runs a full code flow (not the case under test) and returns the token response.
func codeFlow(p params, st *refstore.Store, f *opfix.Fixture) *opfix.Resp {
	id := authorize(p, st, f, "code")
	if id == "" {
		return nil
	}
	cb := f.Callback(p.router, id)
	code := cb.ResponseParams().Get("code")
	return f.Post(p.router, "/oauth/token", url.Values{"grant_type": {"authorization_code"}, "code": {code}, "redirect_uri": {redirect}}, basic(p), "")
}

func intField(m map[string]any, k string) int64 {
	switch v := m[k].(type) {
	case float64:
		return int64(v)
	case string:
		n, _ := strconv.ParseInt(v, 10, 64)
		return n
	}
	return 0
}

func fields(s string) []string {
	if s == "" {
		return []string{}
	}
	return strings.Fields(s)
}

func run(p params, st *refstore.Store, f *opfix.Fixture, arm func()) *result {
	res := &result{client: p.cid}
	var resp *opfix.Resp
	bracket := func(call func() *opfix.Resp) {
		before := tokenIDs(st)
		res.seq = st.Seq()
		waitPhase()
		arm()
		res.t0 = time.Now()
		resp = call()
		res.t1 = time.Now()
		for _, id := range st.SortedTokenIDs() {
			if !before[id] {
				res.newTokens = append(res.newTokens, st.Tokens[id])
			}
		}
	}
	fromJSON := func() {
		res.status, res.panicked = resp.Status, resp.Panic
		if resp.JSON == nil {
			return
		}
		res.access, res.idToken, res.refresh = resp.Str("access_token"), resp.Str("id_token"), resp.Str("refresh_token")
		res.expiresIn = intField(resp.JSON, "expires_in")
		res.scope = fields(resp.Str("scope"))
		res.state, res.tokenType, res.issuedType = resp.Str("state"), resp.Str("token_type"), resp.Str("issued_token_type")
	}
	switch p.flow {
	case "code":
		id := authorize(p, st, f, "code")
		if id == "" {
			return res
		}
		cb := f.Callback(p.router, id)
		res.code = cb.ResponseParams().Get("code")
		fromAuthRequest(res, st.AuthReqs[id])
		if p.preBadRedirect { // a refused request on the same code first: another redirect_uri
			f.Post(p.router, "/oauth/token", url.Values{"grant_type": {"authorization_code"}, "code": {res.code}, "redirect_uri": {redirect + "/other"}}, basic(p), "")
		}
		bracket(func() *opfix.Resp {
			return f.Post(p.router, "/oauth/token", url.Values{"grant_type": {"authorization_code"}, "code": {res.code}, "redirect_uri": {redirect}}, basic(p), "")
		})
		fromJSON()
	case "implicit_id", "implicit_tok":
		rt := "id_token"
		if p.flow == "implicit_tok" {
			rt = "id_token token"
		}
		id := authorize(p, st, f, rt)
		if id == "" {
			return res
		}
		fromAuthRequest(res, st.AuthReqs[id])
		bracket(func() *opfix.Resp { return f.Callback(p.router, id) })
		res.status, res.panicked = resp.Status, resp.Panic
		if resp.Status == 302 && resp.Location != nil {
			v := resp.ResponseParams()
			if v.Get("error") != "" {
				res.status = 400
			}
			res.access, res.idToken, res.refresh = v.Get("access_token"), v.Get("id_token"), v.Get("refresh_token")
			res.expiresIn, _ = strconv.ParseInt(v.Get("expires_in"), 10, 64)
			// fragment values arrive escaped twice (F08, property C11): undo it here, C06 is not about that
			again := func(x string) string {
				if y, err := url.QueryUnescape(x); err == nil && strings.Contains(x, "%") {
					return y
				}
				return x
			}
			res.scope = fields(again(v.Get("scope")))
			res.state, res.tokenType = again(v.Get("state")), v.Get("token_type")
			res.status = 200
		}
	case "refresh":
		g := p.grant
		if g == nil {
			g = &grantState{}
		}
		if g.token == "" {
			first := codeFlow(p, st, f)
			if first == nil || first.Str("refresh_token") == "" {
				return res
			}
			g.token = first.Str("refresh_token")
			rt := st.Refresh[g.token]
			// ground truth of the grant, taken BEFORE any refresh request is made on it
			g.g0 = append([]string{}, rt.Scopes...)
			g.sub, g.aud, g.amr, g.auth = rt.Subject, append([]string{}, rt.Audience...), append([]string{}, rt.AMR...), unixOrZero(rt.AuthTime)
			if rt.Audience == nil {
				g.aud = nil
			}
			if rt.AMR == nil {
				g.amr = nil
			}
		}
		res.rqSub, res.rqAud, res.rqAMR, res.rqAuth = g.sub, g.aud, g.amr, g.auth
		// the earlier requests of this case: each presents the token valid at that moment
		for _, e := range p.earlier {
			cred := basic(p)
			if !e.owner {
				other := map[string]string{"web": "desk", "desk": "web"}[p.cid]
				cred = []string{other, other + "-secret"}
			}
			form := url.Values{"grant_type": {"refresh_token"}, "refresh_token": {g.token}}
			if len(e.scopes) > 0 {
				form.Set("scope", strings.Join(e.scopes, " "))
			}
			if er := f.Post(p.router, "/oauth/token", form, cred, ""); er.Str("refresh_token") != "" {
				g.token = er.Str("refresh_token") // accepted: rotated
			}
			g.hist = append(g.hist, e)
		}
		res.g0, res.earlier = g.g0, append([]earlierReq{}, g.hist...)
		form := url.Values{"grant_type": {"refresh_token"}, "refresh_token": {g.token}}
		res.requested = []string{}
		if len(p.narrowed) > 0 {
			form.Set("scope", strings.Join(p.narrowed, " "))
			res.requested = p.narrowed
		}
		res.rqScopes = standing(g.g0, g.hist) // mirror for tags only
		if len(res.requested) > 0 {
			res.rqScopes = res.requested
		}
		bracket(func() *opfix.Resp { return f.Post(p.router, "/oauth/token", form, basic(p), "") })
		fromJSON()
		g.hist = append(g.hist, earlierReq{owner: true, scopes: res.requested})
		if res.refresh != "" {
			g.token = res.refresh
		}
	case "device":
		da := f.Post(p.router, "/device_authorization", url.Values{"scope": {strings.Join(p.scopes, " ")}}, basic(p), "")
		dc, uc := da.Str("device_code"), da.Str("user_code")
		if dc != "" && p.prePoll { // a refused request on the same device code first: the user has not decided yet
			f.Post(p.router, "/oauth/token", url.Values{"grant_type": {string(oidc.GrantTypeDeviceCode)}, "device_code": {dc}}, basic(p), "")
		}
		if dc == "" || !st.Approve(uc, p.subject) {
			return res
		}
		ds := st.Devices[dc].State
		if p.amr != nil {
			ds.AMR = p.amr
		}
		if p.aud != nil {
			ds.Audience = append([]string{}, p.aud...)
		}
		if p.authAgo < 0 {
			ds.AuthTime = time.Time{}
		} else {
			ds.AuthTime = time.Unix(time.Now().Unix()-p.authAgo, 0)
		}
		res.rqSub, res.rqScopes, res.rqAMR, res.rqAuth = ds.Subject, ds.Scopes, ds.AMR, unixOrZero(ds.AuthTime)
		res.rqAud = append([]string{}, ds.Audience...)
		if !contains(res.rqAud, p.cid) { // DeviceAuthorizationState.GetAudience: exact comparison
			res.rqAud = append(res.rqAud, p.cid)
		}
		bracket(func() *opfix.Resp {
			return f.Post(p.router, "/oauth/token", url.Values{"grant_type": {string(oidc.GrantTypeDeviceCode)}, "device_code": {dc}}, basic(p), "")
		})
		fromJSON()
	case "cc":
		res.rqSub, res.rqAud, res.rqScopes = p.cid, []string{p.cid}, p.scopes
		bracket(func() *opfix.Resp {
			return f.Post(p.router, "/oauth/token", url.Values{"grant_type": {"client_credentials"}, "scope": {strings.Join(p.scopes, " ")}}, basic(p), "")
		})
		fromJSON()
	case "jwt_bearer":
		res.client = "pkjwt"
		res.rqSub, res.rqAud = "pkjwt", []string{p.issuer}
		res.rqScopes = []string{}
		for _, s := range p.scopes {
			if s == "openid" || s == "profile" || s == "email" {
				res.rqScopes = append(res.rqScopes, s)
			}
		}
		as := signAssertion(opfix.ECKey("client-pkjwt"), "pkjwt", []string{p.issuer})
		bracket(func() *opfix.Resp {
			return f.Post(p.router, "/oauth/token", url.Values{"grant_type": {string(oidc.GrantTypeBearer)}, "assertion": {as}, "scope": {strings.Join(p.scopes, " ")}}, nil, "")
		})
		fromJSON()
	case "te_access", "te_refresh", "te_id":
		first := codeFlow(p, st, f)
		if first == nil || first.Str("refresh_token") == "" {
			return res
		}
		var subTok string
		var subType oidc.TokenType
		switch {
		case p.teSubjectType == "id" && p.skew >= 0 && !p.clash: // a clashing key set breaks the provider's own hint verification // with a negative skew the provider's hint verifier sees iat in the future
			subTok, subType = first.Str("id_token"), oidc.IDTokenType
		case p.teSubjectType == "jwt" && p.jwtAT && !p.clash:
			subTok, subType = first.Str("access_token"), oidc.AccessTokenType
		default:
			subTok, subType = first.Str("refresh_token"), oidc.RefreshTokenType
		}
		req := map[string]oidc.TokenType{"te_access": oidc.AccessTokenType, "te_refresh": oidc.RefreshTokenType, "te_id": oidc.IDTokenType}[p.flow]
		form := url.Values{"grant_type": {string(oidc.GrantTypeTokenExchange)}, "subject_token": {subTok}, "subject_token_type": {string(subType)},
			"requested_token_type": {string(req)}}
		if p.teActor != "" {
			pa := p
			pa.subject = p.teActor
			if second := codeFlow(pa, st, f); second != nil && second.Str("refresh_token") != "" {
				form.Set("actor_token", second.Str("refresh_token"))
				form.Set("actor_token_type", string(oidc.RefreshTokenType))
				res.rqActor = p.teActor
			}
		}
		// the REQUEST as the storage leaves it after ValidateTokenExchangeRequest: scope "drop" is removed
		// (refstore.TE), the policy may empty the scopes and retarget the subject; the tokens must name
		// these final values, not the presented token's
		pol := tePolicies[st]
		asked := append([]string{}, p.narrowed...)
		if p.teDropScope {
			asked = append(asked, "drop")
		}
		res.rqScopes = []string{}
		if len(asked) > 0 || p.narrowed != nil {
			form.Set("scope", strings.Join(asked, " "))
			res.rqScopes = without(asked, []string{"drop"})
		}
		if pol.EmptyScopes {
			res.rqScopes = []string{}
		}
		res.rqAud = []string{}
		for _, a := range p.teAudience {
			form.Add("audience", a)
			res.rqAud = append(res.rqAud, a)
		}
		res.rqSub = p.subject
		if pol.Subject != "" {
			res.rqSub = pol.Subject
		}
		bracket(func() *opfix.Resp { return f.Post(p.router, "/oauth/token", form, basic(p), "") })
		fromJSON()
		if p.flow == "te_id" {
			res.idToken, res.access, res.idAsAccess = res.access, "", true
		}
	}
	return res
}

// ---------------------------------------------------------------- decoding tokens

type jwsDesc struct {
	alg, kid, typ string
	mat          int // -1 = no pool key verifies it
	payload      map[string]any
	raw          []byte // the payload bytes
}

func describeJWS(tok string, pool []any) *jwsDesc {
	parts := strings.Split(tok, ".")
	if len(parts) != 3 {
		return nil
	}
	hb, err := base64.RawURLEncoding.DecodeString(parts[0])
	if err != nil {
		return nil
	}
	var hdr map[string]any
	if json.Unmarshal(hb, &hdr) != nil {
		return nil
	}
	d := &jwsDesc{mat: -1, payload: opfix.JWTPayload(tok)}
	d.raw, _ = base64.RawURLEncoding.DecodeString(parts[1])
	d.alg, _ = hdr["alg"].(string)
	d.kid, _ = hdr["kid"].(string)
	d.typ, _ = hdr["typ"].(string)
	if jws, err := jose.ParseSigned(tok, allAlgs); err == nil {
		for i, pub := range pool {
			if _, err := jws.Verify(pub); err == nil {
				d.mat = i
				break
			}
		}
	}
	return d
}

func emitJWS(d *jwsDesc) string {
	mat := emit.None
	if d.mat >= 0 {
		mat = emit.Some(fmt.Sprintf("%d%%N", d.mat))
	}
	return emit.Ctor("mkJ", emit.Str(d.alg), emit.Str(d.kid), emit.Str(d.typ), mat)
}

func strClaim(m map[string]any, k string) string { s, _ := m[k].(string); return s }

func audClaim(m map[string]any) []string {
	switch v := m["aud"].(type) {
	case string:
		return []string{v}
	case []any:
		out := []string{}
		for _, x := range v {
			s, _ := x.(string)
			out = append(out, s)
		}
		return out
	}
	return []string{}
}

func strsClaim(m map[string]any, k string) []string {
	out := []string{}
	if v, ok := m[k].([]any); ok {
		for _, x := range v {
			s, _ := x.(string)
			out = append(out, s)
		}
	}
	return out
}

func extras(m map[string]any, known []string) string {
	names := []string{}
	for k := range m {
		if !contains(known, k) {
			names = append(names, k)
		}
	}
	sort.Strings(names)
	items := []string{}
	for _, k := range names {
		v, ok := m[k].(string)
		if !ok {
			b, _ := json.Marshal(m[k])
			v = string(b)
		}
		items = append(items, emit.Pair(emit.Str(k), emit.Str(v)))
	}
	return emit.List(items)
}

var idKnown = []string{"iss", "sub", "aud", "azp", "client_id", "exp", "iat", "auth_time", "nonce", "acr", "amr", "at_hash", "c_hash", "name", "email", "email_verified", "preferred_username", "phone_number", "phone_number_verified", "address"}
var atKnown = []string{"iss", "sub", "aud", "exp", "iat", "nbf", "client_id", "jti"}

// The claims are emitted AS THE LIBRARY'S OWN DECODER READS THE PAYLOAD: json.Unmarshal into
// oidc.IDTokenClaims / oidc.AccessTokenClaims - what rp.VerifyIDToken / op.VerifyAccessToken
// hand to the caller. encoding/json matches member names case-insensitively (Unicode simple
// folding) and the last matching key wins, so a custom claim that shadows a registered member
// shows here as that member's value. Every key of the payload object that is not the exact
// name of a modelled member is listed as an extra claim.
func emitIDClaims(d *jwsDesc) string {
	var c oidc.IDTokenClaims
	err := json.Unmarshal(d.raw, &c)
	rest := map[string]any{}
	for k, v := range c.Claims {
		rest[k] = v
	}
	if err != nil || len(d.raw) == 0 {
		rest["!undecodable"] = "1"
	}
	// address: the formatted member is modelled; any other member counts as an unknown claim
	addr := ""
	if c.Address != nil {
		addr = c.Address.Formatted
	}
	if a, ok := c.Claims["address"].(map[string]any); ok {
		for k, v := range a {
			if k != "formatted" {
				rest["address."+k] = v
			}
		}
	} else if c.Claims["address"] != nil {
		rest["address.?"] = c.Claims["address"]
	}
	return emit.Ctor("mkID", emit.Str(c.Issuer), emit.Str(c.Subject), emit.StrList(optStrs(c.Audience)),
		emit.Str(c.AuthorizedParty), emit.Str(c.ClientID),
		emit.Z(int64(c.Expiration)), emit.Z(int64(c.IssuedAt)), emit.Z(int64(c.AuthTime)),
		emit.Str(c.Nonce), emit.Str(c.AuthenticationContextClassReference), emit.StrList(optStrs(c.AuthenticationMethodsReferences)),
		emit.Str(c.AccessTokenHash), emit.Str(c.CodeHash),
		emit.Str(c.Name), emit.Str(c.Email), emit.Bool(bool(c.EmailVerified)),
		emit.Str(c.PreferredUsername), emit.Str(c.PhoneNumber), emit.Bool(c.PhoneNumberVerified), emit.Str(addr),
		extras(rest, idKnown))
}

func emitATClaims(d *jwsDesc) string {
	var c oidc.AccessTokenClaims
	err := json.Unmarshal(d.raw, &c)
	rest := map[string]any{}
	for k, v := range c.Claims {
		rest[k] = v
	}
	if err != nil || len(d.raw) == 0 {
		rest["!undecodable"] = "1"
	}
	return emit.Ctor("mkAT", emit.Str(c.Issuer), emit.Str(c.Subject), emit.StrList(optStrs(c.Audience)),
		emit.Z(int64(c.Expiration)), emit.Z(int64(c.IssuedAt)), emit.Z(int64(c.NotBefore)),
		emit.Str(c.ClientID), emit.Str(c.JWTID), extras(rest, atKnown))
}

func errClass(err error) string {
	if err == nil {
		return "VAccept"
	}
	table := []struct {
		e error
		c string
	}{
		{oidc.ErrSubjectMissing, "ESubject"}, {oidc.ErrIssuerInvalid, "EIssuer"}, {oidc.ErrAudience, "EAudience"},
		{oidc.ErrAzpMissing, "EAzpMissing"}, {oidc.ErrAzpInvalid, "EAzpInvalid"},
		{oidc.ErrSignatureUnsupportedAlg, "ESigAlg"}, {oidc.ErrSignatureMissing, "ESigMissing"},
		{oidc.ErrSignatureMultiple, "ESigMultiple"}, {oidc.ErrSignatureInvalidPayload, "ESigPayload"},
		{oidc.ErrSignatureInvalid, "ESigInvalid"}, {oidc.ErrExpired, "EExpired"}, {oidc.ErrIatMissing, "EIatMissing"},
		{oidc.ErrIatInFuture, "EIatFuture"}, {oidc.ErrIatToOld, "EIatOld"}, {oidc.ErrNonceInvalid, "ENonce"},
		{oidc.ErrAcrInvalid, "EAcr"}, {oidc.ErrAuthTimeNotPresent, "EAuthTimeMissing"}, {oidc.ErrAuthTimeToOld, "EAuthTimeOld"},
		{oidc.ErrAtHash, "EAtHash"}, {oidc.ErrParse, "EParse"},
	}
	for _, t := range table {
		if errors.Is(err, t.e) {
			return "(VReject " + t.c + ")"
		}
	}
	return "(VReject EOther)"
}

func aesTable(key []byte, rawTokens ...[]byte) string {
	c, err := aes.NewCipher(key)
	if err != nil {
		return "[]"
	}
	items := []string{}
	seen := map[string]bool{}
	for _, ct := range rawTokens {
		for i := 0; i+16 <= len(ct); i += 16 {
			b := ct[i : i+16]
			if seen[string(b)] {
				continue
			}
			seen[string(b)] = true
			out := make([]byte, 16)
			c.Encrypt(out, b)
			items = append(items, emit.Pair(emit.Bytes(b), emit.Bytes(out)))
		}
	}
	return emit.List(items)
}

func hashEntry(s string) string {
	a := sha256.Sum256([]byte(s))
	b := sha512.Sum384([]byte(s))
	c := sha512.Sum512([]byte(s))
	return emit.Pair(emit.Str(s), emit.Pair(emit.Pair(emit.Bytes(a[:]), emit.Bytes(b[:])), emit.Bytes(c[:])))
}

// uiCount: how many of the four userinfo scopes the request carries
func uiCount(scopes []string) int {
	n := 0
	for _, x := range []string{"profile", "email", "phone", "address"} {
		if contains(scopes, x) {
			n++
		}
	}
	return n
}

func optStrs(l []string) []string {
	if l == nil {
		return []string{}
	}
	return l
}

// audClass: how the request's audience relates to the client id
func audClass(aud []string, cid string) string {
	exact, near := false, false
	for _, a := range aud {
		switch {
		case a == cid:
			exact = true
		case strings.EqualFold(strings.TrimRight(strings.TrimSpace(strings.NewReplacer("%20", "", "+", "").Replace(a)), "/"), cid):
			near = true
		}
	}
	switch {
	case len(aud) == 0:
		return "empty"
	case exact && near:
		return "client+nearmiss"
	case near:
		return "nearmiss"
	case exact && len(aud) == 1:
		return "client"
	case exact:
		return "client+other"
	}
	return "other"
}

// byteClass: ascii, or which UTF-8 forms occur (2 / 3 / 4-byte) and whether a byte 0x80-0x9F or 0xAD does
func byteClass(s string) string {
	forms, low := map[int]bool{}, false
	for i := 0; i < len(s); i++ {
		c := s[i]
		switch {
		case c >= 0xf0:
			forms[4] = true
		case c >= 0xe0:
			forms[3] = true
		case c >= 0xc0:
			forms[2] = true
		}
		if (c >= 0x80 && c <= 0x9f) || c == 0xad {
			low = true
		}
	}
	if len(forms) == 0 {
		return "ascii"
	}
	out := "utf8"
	for _, n := range []int{2, 3, 4} {
		if forms[n] {
			out += fmt.Sprintf("-%d", n)
		}
	}
	if low {
		out += "-c1"
	}
	return out
}

// nameClass: the custom claim names of the request
func nameClass(customs []string) string {
	if len(customs) == 0 {
		return "none"
	}
	for _, c := range customs {
		for i := 0; i < len(c); i++ {
			if c[i] >= 0x80 {
				return "unicode"
			}
		}
	}
	return "ascii"
}

// ---------------------------------------------------------------- one case

type tally struct{ ambiguous, failedSetup int }

// oneCase: one issuance on (st, f) whose storage currently answers sk; hist tags the history step.
// rot > 0: the storage switches to sk2 after the rot-th SigningKey call of the request under test.
func oneCase(p params, sk signState, st *refstore.Store, f *opfix.Fixture, pool []any, hist string, w *emit.Writer, tl *tally) bool {
	return oneCaseRot(p, sk, sk, 0, st, f, pool, hist, w, tl)
}

func oneCaseRot(p params, sk, sk2 signState, rot int, st *refstore.Store, f *opfix.Fixture, pool []any, hist string, w *emit.Writer, tl *tally) bool {
	var res *result
	configure(st, p)          // the client-side parameters of THIS issuance (histories change them between issuances)
	f.Opts.Issuer = p.issuer  // scheme://host of this case's requests (a dynamic-issuer provider derives the issuer from it)
	if cfg := proxies[f]; cfg != nil {
		cfg.header, cfg.upstream = "", p.upstream
		switch p.issMode {
		case "forwarded":
			cfg.header = "Forwarded"
		case "custom":
			cfg.header = customFwdHeader
		}
	}
	arm := func() {
		if rot > 0 {
			st.RotateAfterSigningKeyCalls(rot, func() { applyKey(st, sk2) })
		}
	}
	if pn := drv.Catch(func() { res = run(p, st, f, arm) }); pn != "" {
		res = &result{panicked: pn}
	}
	final := sk
	if rot > 0 { // whether or not the rotation was reached: the new state holds from now on
		st.RotateAfterSigningKeyCalls(0, nil)
		applyKey(st, sk2)
		final = sk2
	}
	if res.panicked == "" && res.t0.IsZero() {
		tl.failedSetup++
		return false
	}
	if res.panicked == "" && res.t0.Unix() != res.t1.Unix() {
		tl.ambiguous++
		return false
	}
	ctx := op.ContextWithIssuer(context.Background(), p.issuer)

	// ---- input term
	flowTerm := map[string]string{"implicit_id": "FImplicitID", "implicit_tok": "FImplicitTok", "refresh": "FRefresh", "device": "FDevice",
		"cc": "FClientCred", "jwt_bearer": "FJwtBearer", "te_access": "(FExchange RAccess)", "te_refresh": "(FExchange RRefresh)", "te_id": "(FExchange RIDTok)"}[p.flow]
	if p.flow == "code" {
		flowTerm = emit.Ctor("FCode", emit.Str(res.code))
	}
	clientTerm := emit.Ctor("mkClient", emit.Str(res.client), emit.Bool(p.jwtAT), emit.Z(p.skew), emit.Z(p.idLife), emit.Z(p.atLife),
		emit.Bool(p.assert), emit.Bool(p.refreshGrant), emit.StrList(optStrs(p.dropID)), emit.StrList(optStrs(p.dropAT)))
	keyTerm := emit.Ctor("mkKey", emit.Str(sk.kid), emit.Str(string(sk.alg)), sk.m.kty, fmt.Sprintf("%d%%N", sk.m.id))
	key2Term := emit.Ctor("mkKey", emit.Str(sk2.kid), emit.Str(string(sk2.alg)), sk2.m.kty, fmt.Sprintf("%d%%N", sk2.m.id))
	pubs := []string{}
	for _, e := range final.published() {
		pubs = append(pubs, emit.Ctor("mkJwk", emit.Str(e.kid), emit.Str(e.use), e.m.kty, fmt.Sprintf("%d%%N", e.m.id)))
	}
	keysTerm := emit.List(pubs)
	userTerm := emit.None
	if u := st.Users[res.rqSub]; u != nil {
		userTerm = emit.Some(emit.Ctor("mkUser", emit.Str(u.Name), emit.Str(u.Email),
			emit.Str(refstore.RichUsername(u.Subject)), emit.Str(refstore.RichPhone(u.Subject)), emit.Str(refstore.RichAddress(u.Subject))))
	}
	reqTerm := emit.Ctor("mkReq", emit.Str(res.rqSub), emit.StrList(optStrs(res.rqAud)), emit.StrList(optStrs(res.rqScopes)),
		emit.Str(res.rqNonce), emit.Str(res.rqACR), emit.StrList(optStrs(res.rqAMR)), emit.Z(res.rqAuth), emit.Str(res.rqActor))
	idsTerm := emit.Ctor("mkIds", emit.Str(fmt.Sprintf("at%d", res.seq+1)+p.atIDSuffix), emit.Str(fmt.Sprintf("rt%d", res.seq+1)), emit.Str(fmt.Sprintf("at%d", res.seq+2)+p.atIDSuffix))

	var rawOpaque []byte
	isJWT := strings.Count(res.access, ".") == 2
	iv, wire := []byte{}, ""
	if res.access != "" {
		if isJWT {
			wire = res.access
		} else if raw, err := base64.RawURLEncoding.DecodeString(res.access); err == nil && len(raw) >= 16 {
			rawOpaque, iv = raw, raw[:16]
		}
	}
	entTerm := emit.Ctor("mkEnt", emit.Bytes(iv), emit.Str(wire))
	hashes := []string{}
	if res.access != "" {
		hashes = append(hashes, hashEntry(res.access))
	}
	if res.code != "" {
		hashes = append(hashes, hashEntry(res.code))
	}

	// ---- verification with the real verifiers against the served key set
	keysResp := f.Get(p.router, "/keys", nil)
	var jwks jose.JSONWebKeySet
	_ = json.Unmarshal([]byte(keysResp.Body), &jwks)
	served := []string{}
	for _, jk := range jwks.Keys {
		kty, mat := "KOther", 99
		switch jk.Key.(type) {
		case *rsa.PublicKey:
			kty = "KRsa"
		case *ecdsa.PublicKey:
			kty = "KEc"
		case ed25519.PublicKey:
			kty = "KOkp"
		}
		for i, pub := range pool {
			if samePub(pub, jk.Key) {
				mat = i
			}
		}
		served = append(served, emit.Ctor("mkJwk", emit.Str(jk.KeyID), emit.Str(jk.Use), kty, fmt.Sprintf("%d%%N", mat)))
	}
	ks := staticKeySet{jwks.Keys}
	expNonce := res.rqNonce
	opts := []rp.VerifierOption{rp.WithIssuedAtOffset(time.Duration(p.offset) * time.Second)}
	if p.vAlgs != nil {
		opts = append(opts, rp.WithSupportedSigningAlgorithms(p.vAlgs...))
	}
	nonceTerm := emit.None
	if p.vNonce {
		opts = append(opts, rp.WithNonce(func(context.Context) string { return expNonce }))
		nonceTerm = emit.Some(emit.Str(expNonce))
	}
	acrTerm := emit.None
	if p.vACR != nil {
		opts = append(opts, rp.WithACRVerifier(oidc.DefaultACRVerifier(p.vACR)))
		acrTerm = emit.Some(emit.StrList(p.vACR))
	}
	idv := rp.NewIDTokenVerifier(p.issuer, res.client, ks, opts...)
	if !p.vNonce {
		idv.Nonce = nil
	}
	var atOpts []op.AccessTokenVerifierOpt
	if p.atAlgs != nil {
		atOpts = append(atOpts, op.WithSupportedAccessTokenSigningAlgorithms(p.atAlgs...))
	}
	atv := op.NewAccessTokenVerifier(p.issuer, ks, atOpts...)
	verTerm := emit.Ctor("mkVerifier", emit.Str(p.issuer), emit.Str(res.client), emit.Z(p.offset*1e9), emit.Z(0), emit.Z(0),
		nonceTerm, acrTerm, emit.StrList(optStrs(p.vAlgs)))

	vnow := time.Now()
	observed := ""
	switch {
	case res.panicked != "":
		observed = "OPanic"
	case res.status != 200 || (res.access == "" && res.idToken == ""):
		observed = emit.Ctor("ONoTokens", emit.Nat(res.status))
	default:
		idTerm, idVerdict := emit.None, emit.None
		if res.idToken != "" {
			d := describeJWS(res.idToken, pool)
			if d == nil || d.payload == nil {
				d = &jwsDesc{mat: -1, payload: map[string]any{}}
			}
			idTerm = emit.Some(emit.Pair(emitJWS(d), emitIDClaims(d)))
			var err error
			if pn := drv.Catch(func() {
				if res.access != "" {
					_, err = rp.VerifyTokens[*oidc.IDTokenClaims](ctx, res.access, res.idToken, idv)
				} else {
					_, err = rp.VerifyIDToken[*oidc.IDTokenClaims](ctx, res.idToken, idv)
				}
			}); pn != "" {
				err = errors.New("panic")
			}
			idVerdict = emit.Some(errClass(err))
		}
		accTerm, atVerdict, opened, otherOpens := "ANone", emit.None, emit.None, false
		readers := []string{}
		userinfo := false
		if res.access != "" {
			if isJWT {
				d := describeJWS(res.access, pool)
				if d == nil || d.payload == nil {
					d = &jwsDesc{mat: -1, payload: map[string]any{}}
				}
				accTerm = emit.Ctor("AJwt", emit.Str(res.access), emitJWS(d), emitATClaims(d))
				var err error
				if pn := drv.Catch(func() { _, err = op.VerifyAccessToken[*oidc.AccessTokenClaims](ctx, res.access, atv) }); pn != "" {
					err = errors.New("panic")
				}
				atVerdict = emit.Some(errClass(err))
			} else {
				accTerm = emit.Ctor("AOpaque", emit.Str(res.access))
				if s, ok := f.OpenBearer(res.access); ok {
					opened = emit.Some(emit.Str(s))
					if s2, err := crypto.DecryptAES(res.access, otherKey); err == nil && s2 == s {
						otherOpens = true
					}
				}
			}
			ids, subs, oks := op.VerifC06TokenReaders(ctx, f.Provider, res.access)
			for i := range ids {
				if oks[i] {
					readers = append(readers, emit.Some(emit.Pair(emit.Str(ids[i]), emit.Str(subs[i]))))
				} else {
					readers = append(readers, emit.None)
				}
			}
			ui := f.Post(p.router, "/userinfo", url.Values{}, nil, res.access)
			userinfo = ui.Status == 200 && ui.Panic == ""
		}
		stored := emit.None
		if len(res.newTokens) == 1 {
			t := res.newTokens[0]
			stored = emit.Some(emit.Pair(emit.Pair(emit.Str(t.ID), emit.Z(t.Expiration.Unix())), emit.StrList(optStrs(t.Scopes))))
		} else if len(res.newTokens) > 1 {
			stored = emit.Some(emit.Pair(emit.Pair(emit.Str("several"), emit.Z(0)), "[]"))
		}
		respTerm := emit.Ctor("mkResp", accTerm, idTerm, emit.Bool(res.idAsAccess), emit.Str(res.refresh), emit.Z(res.expiresIn),
			emit.StrList(optStrs(res.scope)), emit.Str(res.state), emit.Str(res.tokenType), emit.Str(res.issuedType))
		checks := emit.Ctor("mkChecks", emit.List(served), idVerdict, atVerdict, opened, emit.Bool(otherOpens), emit.List(readers), emit.Bool(userinfo), stored)
		observed = emit.Ctor("OResp", respTerm, checks)
	}

	var key [32]byte
	copy(key[:], "c06-provider-crypto-key-32-bytes")
	caseTerm := emit.Ctor("mkCase", emit.Nat(int(p.router)), emit.Str(p.issuer), flowTerm, clientTerm, keyTerm, key2Term, emit.Nat(rot), keysTerm, userTerm, reqTerm,
		emit.Str(p.state), idsTerm, entTerm, emit.Z(res.t0.UnixNano()), emit.Z(res.t1.UnixNano()), emit.Z(vnow.UnixNano()),
		verTerm, emit.StrList(optStrs(p.atAlgs)), emit.List(hashes), aesTable(key[:], rawOpaque))

	atKind := "opaque"
	if p.jwtAT {
		atKind = "jwt"
	}
	colon := "0"
	if strings.Contains(res.rqSub, ":") {
		colon = "1"
	}
	openid := "0"
	if contains(res.rqScopes, "openid") {
		openid = "1"
	}
	issKind := p.issMode
	if p.dynIssuer && p.issMode != "host" {
		issKind += map[bool]string{true: "-proxied", false: "-direct"}[p.upstream != ""]
	}
	tepol := "na"
	if strings.HasPrefix(p.flow, "te_") {
		pol := tePolicies[st]
		tepol = "plain"
		switch {
		case pol.Subject != "" && pol.Subject != p.subject && pol.EmptyScopes:
			tepol = "subject+noscopes"
		case pol.Subject != "" && pol.Subject != p.subject:
			tepol = "subject"
		case pol.EmptyScopes:
			tepol = "noscopes"
		}
	}
	tags := []string{fmt.Sprintf("uisplit=%v", p.uiSplit), "subject_bytes=" + byteClass(res.rqSub), "tokenid_bytes=" + byteClass(p.atIDSuffix), fmt.Sprintf("sweep=%v", p.sweep >= 0), "uistyle=" + map[bool]string{true: "replace", false: "fields"}[p.uiReplace], "tepolicy=" + tepol, fmt.Sprintf("actor=%v", res.rqActor != ""), "client=" + p.cid, "issuer=" + issKind, "aud=" + audClass(res.rqAud, res.client), "claimnames=" + nameClass(p.customs),
		"router=" + p.router.String(), "flow=" + p.flow, "at=" + atKind, "alg=" + string(sk.alg), fmt.Sprintf("skew=%d", p.skew),
		fmt.Sprintf("idlife=%d", p.idLife), fmt.Sprintf("atlife=%d", p.atLife), "subject_colon=" + colon, "openid=" + openid,
		"assert=" + emit.Bool(p.assert), fmt.Sprintf("offset=%d", p.offset), fmt.Sprintf("custom=%v", contains(res.rqScopes, "custom:x") || contains(res.rqScopes, "custom:y")),
		fmt.Sprintf("keyuse=%q", final.use), fmt.Sprintf("keyset=%d+1+%d", len(final.pre), len(final.post)), fmt.Sprintf("rot=%d", rot), fmt.Sprintf("valgs_default=%v", p.vAlgs == nil), "hist=" + hist, fmt.Sprintf("uiscopes=%d", uiCount(res.rqScopes)),
		"rtstyle=" + map[bool]string{true: "live", false: "copy"}[p.liveGrants], "authtime=" + authClass(p, res),
		fmt.Sprintf("refused_first=%v", (p.flow == "code" && p.preBadRedirect) || (p.flow == "device" && p.prePoll))}
	inputTerm := emit.Ctor("ICase", caseTerm)
	if p.flow == "refresh" {
		// the request under test ends a history on its grant: the scopes the tokens may carry are
		// derived in Coq from the authorization's scopes, the earlier requests and the scope parameter
		es := []string{}
		nRefused, cur := 0, res.g0
		for _, e := range res.earlier {
			es = append(es, emit.Ctor("mkEarlier", emit.Bool(e.owner), emit.StrList(optStrs(e.scopes))))
			if !e.owner || (len(e.scopes) > 0 && !subsetOf(e.scopes, cur)) {
				nRefused++
			}
			cur = standing(cur, []earlierReq{e})
		}
		inputTerm = emit.Ctor("IRefreshed", emit.StrList(optStrs(res.g0)), emit.List(es), emit.StrList(optStrs(res.requested)), caseTerm)
		final := "none"
		if len(res.requested) > 0 {
			final = map[bool]string{true: "within", false: "beyond"}[subsetOf(res.requested, cur)]
		}
		tags = append(tags, fmt.Sprintf("rt_earlier=%d", len(res.earlier)), fmt.Sprintf("rt_refused=%d", nRefused), "rt_scope="+final)
	}
	w.Add(emit.Case{Input: inputTerm, Observed: observed, Tags: tags,
		Human: map[string]any{"params": fmt.Sprintf("%+v", p), "status": res.status, "access_token": res.access, "id_token": res.idToken,
			"subject": res.rqSub, "scopes": res.rqScopes}})
	return true
}

// authClass: value class of the request's authentication time
func authClass(p params, res *result) string {
	switch {
	case strings.HasPrefix(p.flow, "te_") || p.flow == "cc" || p.flow == "jwt_bearer":
		return "na"
	case res.rqAuth == 0:
		return "zero"
	case p.authAgo == 0:
		return "now"
	case p.authAgo > 86400:
		return "old"
	}
	return "recent"
}

var sixAlgs = []string{"RS256", "PS256", "ES256", "ES384", "ES512", "EdDSA"}

// history: several issuances in one process around a change of the signing key,
// between requests or (in_request) between two SigningKey calls of one request.
// Every response is verified against the key set served at that time.
func history(r drv.Rand, p params, sk1 signState, algs []algDef, pool []any, w *emit.Writer, tl *tally) {
	kind := drv.Pick(r, []string{"same_kid_new_key", "new_kid_new_key", "same_kid_new_alg", "two_providers", "in_request", "in_request", "in_request",
		"two_issuers", "two_issuers", "omit_after", "omit_after", "omit_after", "refresh_chain", "refresh_chain", "refresh_chain", "refresh_chain"})
	other := algs[p.key].mats[1-p.mat]
	sk2, p2 := sk1, p
	newAlg := func() {
		j := (p.key + 1 + r.IntN(len(algs)-1)) % len(algs)
		sk2.algIdx, sk2.alg, sk2.m = j, algs[j].alg, algs[j].mats[r.IntN(2)]
		p2.key = j
	}
	switch kind {
	case "refresh_chain":
		// one grant, a chain of refresh requests on it, EACH a case of its own: without scope / within
		// what the token stands for (accepted: the token rotates and stands for the narrowed scopes) /
		// beyond it or by the other client (refused: nothing issued - and nothing changed for the next).
		// Mostly on a storage that hands the framework its live record.
		pc := p
		pc.flow, pc.refreshGrant, pc.narrowed, pc.earlier = "refresh", true, nil, nil
		pc.liveGrants = r.Chance(3, 4)
		if pc.subject == "pkjwt" {
			pc.subject = "alice"
		}
		// claim names: drawn anew for the refresh flow (variants only of members its tokens are certain to carry)
		pc.scopes = without(pc.scopes, pc.customs)
		pc.customs = nil
		if !contains(pc.scopes, "offline_access") {
			pc.scopes = append(append([]string{}, pc.scopes...), "offline_access")
		}
		if r.Bool() {
			pc.customs = customNameScopes(r, pc)
			pc.scopes = append(append([]string{}, pc.scopes...), pc.customs...)
		}
		g := &grantState{}
		pc.grant = g
		st, f := setup(pc, sk1, []string{string(sk1.alg)})
		cur := pc.scopes
		for i, n := 0, 3+r.IntN(3); i < n; i++ {
			pi := pc
			pi.earlier = nil
			if r.Chance(1, 2) { // a request that is not under test in between, mostly a refused one
				e := genRefreshStep(r, cur, pc.scopes, true)
				pi.earlier = []earlierReq{e}
				cur = standing(cur, pi.earlier)
			}
			pi.narrowed = genFinalScopes(r, cur, pc.scopes)
			if i == 0 && pi.earlier == nil {
				pi.narrowed = beyond(r, cur, pc.scopes) // the chain opens with a refused request under test
			}
			oneCase(pi, sk1, st, f, pool, fmt.Sprintf("%s.%d", kind, i+1), w, tl)
			cur = standing(cur, []earlierReq{{owner: true, scopes: pi.narrowed}})
		}
		return
	case "two_issuers":
		// one provider whose issuer is derived from each request: the same flow for host A, host B, host A
		pA, pB := p, p
		pA.dynIssuer, pB.dynIssuer = true, true
		if pA.issMode == "static" || r.Chance(2, 3) {
			// mostly behind the proxy: both external hosts arrive with the same upstream Host
			pA.issMode = drv.Pick(r, []string{"host", "forwarded", "forwarded", "custom"})
			pA.upstream = ""
			if pA.issMode != "host" {
				pA.upstream = proxyUpstream
			}
		}
		pB.issMode, pB.upstream = pA.issMode, pA.upstream
		if pA.issMode != "host" && r.Chance(1, 4) {
			pB.upstream = "" // ... or B comes in directly
		}
		h := r.IntN(len(issuerHosts))
		pA.issuer = "https://" + issuerHosts[h]
		pB.issuer = "https://" + issuerHosts[(h+1+r.IntN(len(issuerHosts)-1))%len(issuerHosts)]
		st, f := setup(pA, sk1, []string{string(sk1.alg)})
		oneCase(pA, sk1, st, f, pool, kind+".a1", w, tl)
		oneCase(pB, sk1, st, f, pool, kind+".b1", w, tl)
		oneCase(pA, sk1, st, f, pool, kind+".a2", w, tl)
		return
	case "omit_after":
		// one provider: a request that carries every optional field, then a request (another flow,
		// maybe the other client, the same subject) that OMITS them, then the first one again
		rich, bare := p, p
		if rich.nonce == "" {
			rich.nonce = "n-rich"
		}
		if rich.acr == "" {
			rich.acr = "urn:acr:mfa"
		}
		if len(rich.amr) == 0 {
			rich.amr = []string{"pwd", "otp"}
		}
		if len(rich.aud) == 0 {
			rich.aud = []string{"https://api.example.com", rich.cid}
		}
		if rich.authAgo < 0 {
			rich.authAgo = 60
		}
		bareFlows := []string{"code", "implicit_id", "device", "cc", "code", "device"}
		if p.refreshGrant {
			bareFlows = append(bareFlows, "refresh", "te_id", "te_access")
		}
		bare.flow = drv.Pick(r, bareFlows)
		bare.nonce, bare.acr, bare.amr, bare.aud, bare.state, bare.authAgo = "", "", []string{}, nil, "", -1
		bare.vACR, bare.customs, bare.narrowed, bare.teAudience, bare.earlier = nil, nil, nil, nil, nil
		bare.scopes = []string{"openid"}
		switch bare.flow {
		case "implicit_id":
			bare.nonce = "n-bare"
		case "refresh", "te_id", "te_access":
			bare.scopes = []string{"openid", "offline_access"}
		case "cc":
			bare.subject = bare.cid
		}
		if r.Chance(1, 3) && bare.flow != "cc" {
			bare.cid = map[string]string{"web": "desk", "desk": "web"}[bare.cid]
		}
		if r.Chance(1, 3) {
			bare.scopes = append(bare.scopes, "custom:tenant") // another custom claim than the rich request's
			bare.customs = []string{"custom:tenant"}
		}
		// ... and the rich request once more for the OTHER client (same subject, same scopes)
		richOther := rich
		richOther.cid = map[string]string{"web": "desk", "desk": "web"}[rich.cid]
		if richOther.flow == "cc" {
			richOther.subject = richOther.cid
		}
		st, f := setup(rich, sk1, []string{string(sk1.alg)})
		oneCase(rich, sk1, st, f, pool, kind+".rich1", w, tl)
		oneCase(bare, sk1, st, f, pool, kind+".bare", w, tl)
		if r.Bool() {
			oneCase(richOther, sk1, st, f, pool, kind+".rich_other_client", w, tl)
		}
		oneCase(rich, sk1, st, f, pool, kind+".rich2", w, tl)
		return
	case "same_kid_new_key", "two_providers":
		sk2.m, sk2.pre, sk2.post = other, nil, nil // the old public key is withdrawn
	case "new_kid_new_key":
		sk2.m, sk2.kid = other, sk1.kid+"-next"
		sk2.pre, sk2.post = nil, []pubEntry{sk1.self()} // the old key stays published
	case "same_kid_new_alg":
		newAlg()
		sk2.pre, sk2.post = nil, nil
		if p.vAlgs != nil {
			p2.vAlgs = []string{string(sk2.alg)}
		}
		if p.atAlgs != nil {
			p2.atAlgs = []string{string(sk2.alg)}
		}
	case "in_request":
		// new kid; mostly another algorithm (other hash family); both keys published
		if r.Chance(3, 4) {
			newAlg()
		} else {
			sk2.m = other
		}
		sk2.kid = sk1.kid + "-next"
		sk2.use = drv.Pick(r, []string{"sig", ""})
		sk2.pre, sk2.post = nil, []pubEntry{sk1.self()}
		if r.Bool() {
			sk2.pre, sk2.post = sk2.post, nil
		}
		if p.vAlgs != nil {
			p2.vAlgs = []string{string(sk1.alg), string(sk2.alg)}
		}
		if p.atAlgs != nil {
			p2.atAlgs = []string{string(sk2.alg), string(sk1.alg)}
		}
		st, f := setup(p, sk1, sixAlgs)
		oneCaseRot(p2, sk1, sk2, 1+r.IntN(2), st, f, pool, kind, w, tl)
		return
	}
	if kind == "two_providers" {
		stA, fA := setup(p, sk1, []string{string(sk1.alg)})
		stB, fB := setup(p, sk2, []string{string(sk2.alg)})
		oneCase(p, sk1, stA, fA, pool, kind+".a1", w, tl)
		oneCase(p, sk2, stB, fB, pool, kind+".b1", w, tl)
		oneCase(p, sk1, stA, fA, pool, kind+".a2", w, tl)
		return
	}
	st, f := setup(p, sk1, sixAlgs)
	oneCase(p, sk1, st, f, pool, kind+".1", w, tl)
	applyKey(st, sk2)
	oneCase(p2, sk2, st, f, pool, kind+".2", w, tl)
	if kind == "same_kid_new_key" { // and back again
		applyKey(st, sk1)
		oneCase(p, sk1, st, f, pool, kind+".3", w, tl)
	}
}

func sk0(p params, algs []algDef) signState { return stateOf(p, algs) }

func main() {
	cfg := drv.Parse()
	r := drv.NewRand(cfg.Seed)
	w := emit.NewWriter(cfg.Out, "C06_spec", 0, cfg.Only)
	algs, pool := keyPool()
	n := cfg.Count(360, 6000)
	tl := &tally{}
	// plain slots and history slots count separately, so that router x flow (x static / dynamic
	// issuer) cycle completely within each kind
	plain, hist, sweep := 0, 0, 0
	for i, tries := 0, 0; w.Len() < n && tries < 3*n+100; i, tries = i+1, tries+1 {
		if i%4 != 3 {
			sw := -1
			if i%8 == 5 { // the Unicode sweep: every 8th slot takes the next subject of unicodeSubjects
				sw = sweep
				sweep++
			}
			p := gen(r, plain, len(algs), false, sw)
			plain++
			sk := stateOf(p, algs)
			st, f := setup(p, sk, []string{string(sk.alg)})
			oneCase(p, sk, st, f, pool, "none", w, tl)
			continue
		}
		p := gen(r, hist, len(algs), true, -1)
		hist++
		history(r, p, sk0(p, algs), algs, pool, w, tl)
	}
	err := w.Close(emit.Meta{Property: "C06", Tier: cfg.Tier, Seed: cfg.Seed,
		Rule: "one case = one token response: a complete flow (code, implicit id_token / id_token token, refresh, device, client_credentials, jwt-bearer, token-exchange for access / refresh / ID token) run over HTTP recorders against the Provider or LegacyServer router on refstore; flow and router cycle deterministically, the rest is drawn from the PRNG: signing key (RS256, PS256, ES256, ES384, ES512, EdDSA; two key materials per algorithm under the SAME kid, kid shared across algorithms in half of the cases; published with use sig or without use, with further keys before / after it: previous key, an enc key and a key of another type under the same kid, rarely a clashing signature key), access-token type, client clock skew (0, +-30 s), ID/access-token lifetimes, scope set (15 base sets plus a random extra standard scope: with/without openid, every subset pattern of profile/email/phone/address, offline_access, custom:x/y; the storage serves a distinct claim group per standard scope and marks userinfo scopes that reach the private-claims lookup), restricted scopes, userinfo-assertion flag, subject (also with ':', unknown to the user store, case / white-space neighbours of other subjects, keyword-like values; a sixth of the cases and every slot of the Unicode sweep - each 8th slot, mostly opaque tokens, flows that read the token back - take the next of 27 subjects that cover U+0080-U+00FF completely, i.e. every UTF-8 continuation byte 0x80-0xBF, C1 controls, NBSP, soft hyphen, Latin Extended, Greek, Cyrillic, Hebrew, Arabic, CJK, Hangul, emoji with ZWJ, combining marks, BOM, the 2/3/4-byte boundaries, with and without ':'), the storage's access-token ids (at<n>, or at<n> plus such a Unicode suffix), client (web, or the same registration as desk), issuer strategy (static; or - every other block of all flows x routers plus a quarter of the rest - derived from each request: op.IssuerFromHost, or op.IssuerFromForwardedOrHost with the Forwarded header or with a custom header, where a reverse proxy in front of the provider moves the external host into that header and hands every request on with the SAME upstream Host, or lets it through directly; five external hosts incl. a port and mixed case), storage style of the userinfo calls (sets fields of the destination / replaces the whole struct; both hooks fill everything / SetUserinfoFromScopes does the standard claims and the optional SetUserinfoFromRequest only adds the custom ones), the storage-defined audience (default, empty, the exact client id, near misses of the client id: case variants, U+017F / U+212A fold variants, white space / %20 / + / tab / LF around it, trailing slash; other values; several; for authorization, device and token-exchange requests), custom claim names (half of the cases add 1-2 scopes custom:<n>, which the storage turns into the private claim <n> of a JWT access token and the userinfo claim <n> of an ID token: exact names, ASCII-case variants and U+017F / U+212A fold variants of the registered members this case's tokens are certain to carry, near misses that fold to no member, variants of sid / scope), the token-exchange storage policy of the fixture (plain, or ValidateTokenExchangeRequest retargets the request's subject - another known / unknown user - and / or empties its scopes; the request may ask for scope drop, which the storage removes; a third of the exchanges present an actor_token of a third user: the case names the request's FINAL subject / scopes and the actor), nonce/acr/state (also white space at the ends, null / 0 / false / [], longer than 1 KiB and 4 KiB), amr, auth time, and the verifier configuration (consistent in most cases; default algorithm list, short offset against a negative skew as inconsistent ones). Every fourth slot is a multi-issuance history in one store/provider (tag hist=): issue, replace the storage's signing key (same kid new material and back; new kid new material with the old key still published; same kid other algorithm), issue again - or two providers alive at once with the same kid and different key material, issuing alternately, or the signing key replaced after the 1st / 2nd Storage.SigningKey call WITHIN the request under test (new kid, mostly another hash family, both keys published), or one dynamic-issuer provider serving external host A, host B, host A - by Host, or both through the same proxy upstream Host by Forwarded / custom header, B sometimes directly (two_issuers), or one provider serving a request that carries every optional field (nonce, acr, amr, audience, auth time, custom claims), then a request of another flow / maybe the other client for the same subject that OMITS them, then the rich request for the other client, then the first again (omit_after); or a chain of 3-5 refresh requests on ONE grant, each a case of its own (refresh_chain: without scope / within what the token stands for / beyond it / by the other client, mostly on a storage that hands the framework its LIVE refresh-token record); every refresh case is the end of a history on its grant (0-3 earlier requests: accepted narrowings that rotate the token, refused ones - a scope beyond the grant, the other client presenting the token - that must change nothing; input IRefreshed g0 earlier requested: the scopes the tokens may carry are derived in Coq from the authorization's scopes, the earlier requests and the scope parameter, never read back from the storage; a request under test that asks beyond the grant must issue nothing: trivial case); a third of the device flows poll once before the approval and a quarter of the code flows present the code with another redirect_uri first (refused requests before the issuance); the request's authentication time is the zero time (none recorded), now, 1 s / 60 s / 50 min / 400 days ago; each response is a case of its own whose input names the key current at that issuance and which is verified against the /keys document served at that time. Claims are compared as the library's own decoder reads the signed payload (json.Unmarshal into oidc.IDTokenClaims / oidc.AccessTokenClaims). Every case issues tokens, so non-trivial = all; distinct = distinct (input, model path class: flow x token kind x refresh token x verdicts).",
		Extra: map[string]any{"clock_ambiguous": tl.ambiguous, "setup_failed": tl.failedSetup}})
	if err != nil {
		fmt.Fprintln(os.Stderr, err)
		os.Exit(1)
	}
}
