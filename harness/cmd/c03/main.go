// Driver for C03 (the OP never redirects an authorization response or error to an
// unregistered URI). Two case kinds:
//
//	IValidate – direct calls of op.ValidateAuthReqRedirectURI (volume);
//	IHistory  – Authorize / Login / Callback histories over HTTP (recorder) against
//	            both routers of the shared fixture.
//
// doublestar.Match, HTTPLoopbackOrLocalhost, url.Parse/String and html/template's
// URL filter are recorded per case as oracle tables.
package main

import (
	"bytes"
	"context"
	"crypto/ecdsa"
	"encoding/json"
	"errors"
	"fmt"
	"html"
	"html/template"
	"io"
	"log/slog"
	"net/http"
	"net/http/httptest"
	"net/netip"
	"net/url"
	"os"
	"regexp"
	"sort"
	"strings"
	"time"

	"github.com/bmatcuk/doublestar/v4"
	jose "github.com/go-jose/go-jose/v4"

	"verifharness/drv"
	"verifharness/emit"
	"verifharness/opfix"
	"verifharness/refstore"

	"github.com/zitadel/oidc/v3/pkg/oidc"
	"github.com/zitadel/oidc/v3/pkg/op"
)

// ---------------------------------------------------------------- oracles

var respKeys = []string{"code", "state", "session_state", "error", "error_description", "access_token",
	"token_type", "id_token", "expires_in", "scope", "refresh_token"}

func hasRespKey(v url.Values) bool {
	for _, k := range respKeys {
		if v.Has(k) {
			return true
		}
	}
	return false
}

// canonURL renders u without the authorization response parameters.
func canonURL(u *url.URL, dropFrag bool) string {
	c := *u
	q := c.Query()
	for _, k := range respKeys {
		q.Del(k)
	}
	c.RawQuery = q.Encode()
	c.ForceQuery = false
	if dropFrag {
		c.Fragment, c.RawFragment = "", ""
	}
	return c.String()
}

// projectLocation: where a Location sends the user agent, whether the parameters
// travel in the fragment, and the OAuth error code ("" = none).
func projectLocation(loc string) (frag bool, code, target string) {
	u, err := url.Parse(loc)
	if err != nil {
		return false, "", loc
	}
	if u.Fragment != "" {
		if fv, err := url.ParseQuery(u.Fragment); err == nil && hasRespKey(fv) {
			return true, fv.Get("error"), canonURL(u, true)
		}
	}
	return false, u.Query().Get("error"), canonURL(u, false)
}

var formRe = regexp.MustCompile(`<form method="post" action="([^"]*)">`)
var actionTmpl = template.Must(template.New("a").Parse(`<form method="post" action="{{ . }}">`))

// formTarget: the form action a browser sees in body, canonicalised; ok=false when
// there is no form, blocked=true when html/template replaced the URL.
func formTarget(body string) (target string, blocked, ok bool) {
	m := formRe.FindStringSubmatch(body)
	if m == nil {
		return "", false, false
	}
	a := html.UnescapeString(m[1])
	if strings.HasPrefix(a, "#ZgotmplZ") {
		return "", true, true
	}
	if u, err := url.Parse(a); err == nil {
		return canonURL(u, false), false, true
	}
	return a, false, true
}

// loopTruth: the ground truth of "u is an http(s) loopback address", decided WITHOUT the library:
// scheme http / https and the host exactly `localhost`, or an IP literal (no zone) in 127.0.0.0/8
// (also written as an IPv4-mapped IPv6 address) or ::1. Host names are compared as spelled: LOCALHOST,
// `localhost.`, names below or around localhost (app.localhost, evil-localhost, localhost.evil.com)
// and number forms that are not IP literals (127.1, 0x7f.0.0.1, 2130706433) are NOT loopback.
func loopTruth(raw string) (path, rawQuery string, ok bool) {
	pu, err := url.Parse(raw)
	if err != nil || (pu.Scheme != "http" && pu.Scheme != "https") {
		return "", "", false
	}
	h := pu.Hostname()
	if h != "localhost" {
		a, err := netip.ParseAddr(h)
		if err != nil || a.Zone() != "" {
			return "", "", false
		}
		a = a.Unmap()
		if a.Is4() {
			if a.As4()[0] != 127 {
				return "", "", false
			}
		} else if a != netip.IPv6Loopback() {
			return "", "", false
		}
	}
	return pu.Path, pu.RawQuery, true
}

// loopDisagree counts the URIs on which the library's classifier and the ground truth differ
var loopDisagree int

func uinfo(u string) string {
	truthT := emit.None
	tp, tq, tok := loopTruth(u)
	if tok {
		truthT = emit.Some(emit.Pair(emit.Str(tp), emit.Str(tq)))
	}
	if pu, ok := op.HTTPLoopbackOrLocalhost(u); ok != tok || (ok && (pu.Path != tp || pu.RawQuery != tq)) {
		loopDisagree++
	}
	loopT := emit.None
	if pu, ok := op.HTTPLoopbackOrLocalhost(u); ok {
		loopT = emit.Some(emit.Pair(emit.Str(pu.Path), emit.Str(pu.RawQuery)))
	}
	canonT := emit.None
	if pu, err := url.Parse(u); err == nil {
		canonT = emit.Some(emit.Pair(emit.Str(canonURL(pu, false)), emit.Str(canonURL(pu, true))))
	}
	formT := emit.None
	var buf bytes.Buffer
	if err := actionTmpl.Execute(&buf, u); err == nil {
		if t, blocked, ok := formTarget(buf.String()); ok && !blocked {
			formT = emit.Some(emit.Str(t))
		}
	}
	return emit.Ctor("Build_uinfo", loopT, canonT, formT, truthT)
}

func tables(clients []*refstore.Client, uris []string) string {
	seenU := map[string]bool{}
	var all []string
	add := func(u string) {
		if !seenU[u] {
			seenU[u] = true
			all = append(all, u)
		}
	}
	for _, u := range uris {
		add(u)
	}
	for _, c := range clients {
		for _, u := range c.Redirects {
			add(u)
		}
	}
	var gl []string
	seenG := map[string]bool{}
	for _, c := range clients {
		if !c.UseGlobs {
			continue
		}
		for _, g := range c.RedirectGlobs {
			for _, u := range uris {
				if seenG[g+"\x00"+u] {
					continue
				}
				seenG[g+"\x00"+u] = true
				m, err := doublestar.Match(g, u)
				r := "GNoMatch"
				if err != nil {
					r = "GBad"
				} else if m {
					r = "GMatch"
				}
				gl = append(gl, "("+emit.Str(g)+", "+emit.Str(u)+", "+r+")")
			}
		}
	}
	var ul []string
	for _, u := range all {
		ul = append(ul, emit.Pair(emit.Str(u), uinfo(u)))
	}
	return emit.Ctor("Build_tables", emit.List(gl), emit.List(ul))
}

// ---------------------------------------------------------------- generators

var appNames = map[op.ApplicationType]string{op.ApplicationTypeWeb: "Web", op.ApplicationTypeUserAgent: "UserAgent", op.ApplicationTypeNative: "Native"}

func clientTerm(c *refstore.Client) string {
	rts := make([]string, len(c.RespTypes))
	for i, t := range c.RespTypes {
		rts[i] = string(t)
	}
	globs := emit.None
	if c.UseGlobs {
		globs = emit.Some(emit.StrList(c.RedirectGlobs))
	}
	return emit.Ctor("Build_client", emit.Str(c.ID), appNames[c.App], emit.Bool(c.Dev), emit.StrList(rts),
		emit.StrList(c.Redirects), globs, emit.Str(loginPrefix(c)))
}

func clientHuman(c *refstore.Client) map[string]any {
	return map[string]any{"id": c.ID, "app": appNames[c.App], "dev": c.Dev, "response_types": c.RespTypes, "redirects": c.Redirects,
		"use_globs": c.UseGlobs, "globs": c.RedirectGlobs, "login": loginPrefix(c)}
}

func clientsHuman(cs []*refstore.Client) []map[string]any {
	var out []map[string]any
	for _, c := range cs {
		out = append(out, clientHuman(c))
	}
	return out
}

func loginPrefix(c *refstore.Client) string {
	if c.LoginPrefix != "" {
		return c.LoginPrefix
	}
	return "/login?authRequestID="
}

var webURIs = []string{"https://app.example.com/cb", "https://app.example.com/cb?x=1", "http://app.example.com/cb",
	"https://app.example.com/a%20b", "http://localhost/cb", "http://127.0.0.1:8080/cb", "https://app.example.com/cb#frag",
	"https://other.example.org/oidc/callback", "myapp://callback",
	// registered URIs that contain glob metacharacters (IPv6 literal, query, literal * and braces)
	"https://[2001:db8::1]/cb", "https://rp.example/cb?src=op", "https://app.example.com/cb/*", "https://app.example.com/{a,b}/cb",
	// trailing slash, upper case and a space inside the registration itself
	"https://app.example.com/cb/", "https://App.Example.com/CB", "https://app.example.com/a b"}
var nativeURIs = []string{"http://localhost/cb", "http://127.0.0.1/cb", "http://127.0.0.1:8080/cb?a=b", "http://[::1]/cb",
	"com.example.app:/cb", "myapp://callback", "https://app.example.com/cb", "http://app.example.com/cb", "https://localhost/cb",
	"http://localhost:3000/auth/callback", "http://[::1]:8080/cb?x=1", "https://[2001:db8::1]/cb", "myapp://cb?x=*",
	"http://localhost/cb/", "MyApp://Callback",
	// private-use schemes without authority (RFC 8252 7.1: scheme:/path), opaque and with an empty authority
	"com.example.app:/oauth2redirect", "app:cb", "app:///cb", "com.example.app:/cb?x=1",
	// loopback registrations with queries (several keys, an encoded space)
	"http://localhost/auth/callback", "http://localhost/cb?a=1&b=2", "http://127.0.0.1/cb?q=a+b&z=%2Fhome", "http://[::1]/cb?b=2&a=1&a=0"}
var globPool = []string{"https://*.example.com/cb", "https://app.example.com/**", "https://app.example.com/{cb,cb2}",
	"http://localhost:*/cb", "myapp://*", "https://app.example.com/c?", "http://127.0.0.1:*/**", "https://[", "https://app.example.com/[a-",
	"https://app.example.com/{cb", "http://*/cb", "**"}

// URIs that the globs above accept (or nearly)
var globShots = []string{"https://sub.example.com/cb", "https://a.b.example.com/cb", "https://app.example.com/x/y/z",
	"https://app.example.com/cb2", "http://localhost:9999/cb", "myapp://anything", "https://app.example.com/cX",
	"http://127.0.0.1:1234/a/b", "https://evil.example/cb?.example.com/cb", "https://evil.example.com/cb", "http://evil.example/cb",
	"https://app.example.com/", "https://sub.example.com/cb/extra", "myapp://a/b"}

var allRT = []oidc.ResponseType{oidc.ResponseTypeCode, oidc.ResponseTypeIDToken, oidc.ResponseTypeIDTokenOnly}

func withKey(c *refstore.Client) *refstore.Client {
	c.Keys = map[string]*jose.JSONWebKey{"k1": {Key: &clientKey(c.ID).PublicKey, KeyID: "k1", Algorithm: "ES256", Use: "sig"}}
	return c
}

func genClient(r drv.Rand, id string) *refstore.Client {
	c := &refstore.Client{ID: id, Secret: "s", Auth: oidc.AuthMethodBasic, ATType: op.AccessTokenTypeBearer,
		Grants: []oidc.GrantType{oidc.GrantTypeCode, oidc.GrantTypeImplicit}}
	c.App = drv.Pick(r, []op.ApplicationType{op.ApplicationTypeWeb, op.ApplicationTypeWeb, op.ApplicationTypeUserAgent, op.ApplicationTypeNative, op.ApplicationTypeNative})
	c.Dev = r.Chance(1, 4)
	c.RespTypes = allRT
	if r.Chance(1, 5) {
		c.RespTypes = []oidc.ResponseType{oidc.ResponseTypeCode}
	}
	pool := webURIs
	if c.App == op.ApplicationTypeNative {
		pool = nativeURIs
	}
	n := 1 + r.IntN(3)
	for i := 0; i < n; i++ {
		c.Redirects = append(c.Redirects, drv.Pick(r, pool))
	}
	if r.Chance(1, 2) {
		c.UseGlobs = true
		ng := r.IntN(3) // a client may implement HasRedirectGlobs without registering any glob
		for i := 0; i < ng; i++ {
			c.RedirectGlobs = append(c.RedirectGlobs, drv.Pick(r, globPool))
		}
	}
	if r.Chance(1, 3) {
		c.LoginPrefix = "https://login.example.com/l?id="
	}
	if r.Chance(1, 40) { // a registration longer than 1 KiB / 4 KiB
		c.Redirects = append(c.Redirects, drv.Pick(r, pool[:3])+longPad(r))
	}
	// the authorization endpoint does not authenticate the client: the method must not matter
	c.Auth = drv.Pick(r, []oidc.AuthMethod{oidc.AuthMethodBasic, oidc.AuthMethodBasic, oidc.AuthMethodPost, oidc.AuthMethodNone, oidc.AuthMethodPrivateKeyJWT})
	if c.Auth == oidc.AuthMethodNone {
		c.Secret = ""
	}
	return withKey(c)
}

// hosts that are loopback (first line), and hosts that merely look like it: names with localhost /
// 127.0.0.1 as prefix, suffix or label, other cases and spellings, numbers that are not IP literals,
// addresses next to the loopback ranges
var loopHosts = []string{"localhost", "127.0.0.1", "[::1]", "127.0.0.2", "127.255.255.254", "[::ffff:127.0.0.1]", "[0:0:0:0:0:0:0:1]", "[::ffff:7f00:1]",
	"evil-localhost", "attackerlocalhost", "notlocalhost", "login.notlocalhost", "app.localhost", "localhost.evil.com", "localhost.evil.example", "localhost-evil",
	"localhostx", "1localhost", "localhost.", "localhost..", "LOCALHOST", "Localhost", "LocalHost.", "local-host", "locahost", "localhost.localdomain",
	"127.0.0.1.evil.com", "127.0.0.1.", "evil127.0.0.1", "127.0.0.1.nip.io", "128.0.0.1", "126.255.255.255", "1.0.0.127", "10.0.0.1", "0.0.0.0", "127.1", "127.0.1", "0x7f.1",
	"0x7f.0.0.1", "0177.0.0.1", "2130706433", "127.0.0.01", "[::2]", "[::]", "[::1%25lo]", "[1::1]", "[::ffff:128.0.0.1]", "[fe80::1]", "xn--localhost", "localhost%00.evil.com", "127.0.0.1%2eevil.com"}

// loopNear: base with its host replaced by one of loopHosts; port kept, dropped or replaced; sometimes
// with userinfo (also userinfo that itself looks like a loopback host). Path, query and fragment stay,
// so a loopback classification of the new host is all that is needed for a native client to accept it.
func loopNear(r drv.Rand, base string) (string, bool) {
	i := strings.Index(base, "://")
	if i < 0 {
		return "", false
	}
	rest := base[i+3:]
	j := strings.IndexAny(rest, "/?#")
	if j < 0 {
		j = len(rest)
	}
	auth, tail := rest[:j], rest[j:]
	if k := strings.LastIndex(auth, "@"); k >= 0 {
		auth = auth[k+1:]
	}
	port := ""
	if k := strings.LastIndex(auth, ":"); k >= 0 && !strings.HasSuffix(auth, "]") {
		port = auth[k:]
	}
	switch r.IntN(4) {
	case 0:
		port = ""
	case 1:
		port = drv.Pick(r, []string{":8080", ":80", ":443", ":1", ":65535"})
	}
	user := ""
	if r.Chance(1, 6) {
		user = drv.Pick(r, []string{"user@", "localhost@", "127.0.0.1@", "user:pw@", "localhost:80@"})
	}
	scheme := base[:i]
	if r.Chance(1, 5) && (scheme == "http" || scheme == "https") {
		scheme = map[string]string{"http": "https", "https": "http"}[scheme]
	}
	host := drv.Pick(r, loopHosts)
	if r.Chance(1, 3) { // a genuine loopback host whose QUERY is a near miss of the registered one
		host, tail = drv.Pick(r, loopHosts[:8]), queryNear(r, tail)
	}
	return scheme + "://" + user + host + port + tail, true
}

// queryNear: tail (path?query#fragment) with a query that differs from the original only by what
// net/url's Query() discards, reorders or decodes alike: pairs with ';', bad percent escapes, empty
// pairs and keys, reordered and duplicated pairs, '+' against %20, the case of escapes, a bare '?'.
// The property compares the raw query string ("differs only in scheme, host spelling and port").
func queryNear(r drv.Rand, tail string) string {
	frag := ""
	if i := strings.IndexByte(tail, '#'); i >= 0 {
		tail, frag = tail[:i], tail[i:]
	}
	path, query, has := strings.Cut(tail, "?")
	add := func(p string) string {
		if query == "" {
			return p
		}
		if r.Bool() {
			return p + "&" + query
		}
		return query + "&" + p
	}
	pairs := strings.Split(query, "&")
	switch r.IntN(12) {
	case 0, 1:
		query = add(drv.Pick(r, []string{"next=%2Fhome;role=admin", "a;b", ";", "x=1;y=2", "redirect=https://evil.example/;x"}))
	case 2, 3:
		query = add(drv.Pick(r, []string{"%zz=1", "a=%zz", "%=1", "a=%", "a=%2", "%gg", "x=%u0041"}))
	case 4:
		query = add(drv.Pick(r, []string{"", "&", "=", "=x", "&&"}))
	case 5:
		if len(pairs) > 1 { // same pairs, other order
			i := r.IntN(len(pairs) - 1)
			pairs[i], pairs[i+1] = pairs[i+1], pairs[i]
			query = strings.Join(pairs, "&")
		} else {
			query = add("zz=1")
		}
	case 6:
		if query != "" {
			query = add(drv.Pick(r, pairs)) // a pair twice
		} else {
			query = "a=1&a=1"
		}
	case 7:
		switch {
		case strings.Contains(query, "+"):
			query = strings.Replace(query, "+", "%20", 1)
		case strings.Contains(query, "%20"):
			query = strings.Replace(query, "%20", "+", 1)
		case strings.Contains(query, "%2F"):
			query = strings.Replace(query, "%2F", drv.Pick(r, []string{"%2f", "/"}), 1)
		case strings.Contains(query, "="):
			query = strings.Replace(query, "=", "%3D", 1) // decodes to the same text, is another key
		default:
			query = add("a=b+c")
		}
	case 8:
		if has && query == "" {
			return path + frag
		}
		if !has {
			return path + "?" + frag // a bare question mark
		}
		query = add("x=1") // an ordinary extra parameter
	case 9:
		query = add(drv.Pick(r, []string{"x=1", "state=evil", "code=evil", "error=access_denied"}))
	case 10:
		if len(pairs) > 1 { // a pair less
			query = strings.Join(pairs[1:], "&")
		} else {
			query = ""
		}
	default:
		if query != "" { // a key without '=' / with an empty value
			query = strings.TrimSuffix(query, "=") + "="
		} else {
			query = "a"
		}
	}
	if query == "" {
		return path + frag
	}
	return path + "?" + query + frag
}

func longPad(r drv.Rand) string {
	return drv.Pick(r, []string{"?pad=", "/pad/", "#pad"}) + strings.Repeat("a", drv.Pick(r, []int{1100, 4200}))
}

// foldVariant: s with one letter replaced by a character that only Unicode case folding maps back to it
// (U+212A KELVIN SIGN, U+017F LONG S), or with its case changed in one part.
func foldVariant(r drv.Rand, s string) string {
	switch r.IntN(5) {
	case 0:
		if i := strings.LastIndexAny(s, "kK"); i >= 0 {
			return s[:i] + "\u212a" + s[i+1:]
		}
	case 1:
		if i := strings.LastIndexAny(s, "sS"); i >= 0 {
			return s[:i] + "\u017f" + s[i+1:]
		}
	case 2:
		return strings.ToUpper(s)
	case 3:
		return strings.ToLower(s)
	}
	if i := strings.LastIndexByte(s, '/'); i >= 0 && i+1 < len(s) { // case of the last path segment only
		if up := s[:i+1] + strings.ToUpper(s[i+1:]); up != s {
			return up
		}
		return s[:i+1] + strings.ToLower(s[i+1:])
	}
	return strings.ToUpper(s)
}

// relative: a non-empty reference without scheme and host. http.Redirect resolves those against the
// path of the request, so what the user agent follows is not the string itself; they are only sent
// where they cannot be accepted (see genURI).
func relative(u string) bool {
	pu, err := url.Parse(u)
	return err == nil && u != "" && pu.Scheme == "" && pu.Host == ""
}

// mutate derives a requested redirect_uri from a registered one.
func mutate(r drv.Rand, base string) (string, string) {
	u, kind := mutate0(r, base)
	if relative(u) {
		u += ":"
	}
	return u, kind
}

func mutate0(r drv.Rand, base string) (string, string) {
	switch k := r.IntN(19); k {
	case 14: // what TrimSpace / form decoding / a lenient comparison would forgive
		ws := drv.Pick(r, []string{" ", "\t", "\r", "\n", "\r\n", "%20", "%09", "%0A", "%0D%0A", "+", "\u00a0", "\x00"})
		if r.Bool() {
			return base + ws, "space"
		}
		return ws + base, "space"
	case 15: // trailing slash on one side only
		if strings.HasSuffix(base, "/") {
			return strings.TrimSuffix(base, "/"), "slash"
		}
		return base + drv.Pick(r, []string{"/", "//", "/."}), "slash"
	case 16:
		return foldVariant(r, base), "fold"
	case 17: // literals that sloppy code takes for "absent"
		return drv.Pick(r, []string{"null", "NULL", "nil", "undefined", "true", "false", "0", "[]", "{}", "none", "about:blank"}), "keyword"
	case 18:
		if r.Chance(1, 3) {
			return base + longPad(r), "long"
		}
		return base + "?" + strings.Repeat("x", 60), "long"
	case 0:
		return base + drv.Pick(r, []string{"/x", "x", "?x=1", "#f", "/../evil", "%2f..", "/", "&x=1", "?"}), "suffix"
	case 1:
		return drv.Pick(r, []string{"https://evil.example/?u=", "https://evil.example/", "x", "//evil.example/"}) + base, "prefix"
	case 2:
		if i := strings.Index(base, "://"); i >= 0 {
			rest := base[i+3:]
			if r.Bool() {
				return base[:i+3] + "evil.example@" + rest, "userinfo"
			}
			if j := strings.IndexAny(rest, "/?#"); j >= 0 {
				return base[:i+3] + rest[:j] + "@evil.example" + rest[j:], "userinfo"
			}
			return base + "@evil.example", "userinfo"
		}
		return "evil@" + base, "userinfo"
	case 3:
		if i := strings.Index(base, "://"); i >= 0 {
			rest := base[i+3:]
			j := strings.IndexAny(rest, "/?#")
			if j < 0 {
				j = len(rest)
			}
			return base[:i+3] + strings.ToUpper(rest[:j]) + rest[j:], "hostcase"
		}
		return strings.ToUpper(base), "hostcase"
	case 4:
		if i := strings.Index(base, "://"); i >= 0 {
			rest := base[i+3:]
			j := strings.IndexAny(rest, "/?#")
			if j < 0 {
				j = len(rest)
			}
			host := rest[:j]
			if k := strings.LastIndex(host, ":"); k >= 0 && !strings.HasSuffix(host, "]") {
				host = host[:k]
			}
			return base[:i+3] + host + drv.Pick(r, []string{":8443", ":1", ":65535", ":0", ":", ":80x"}) + rest[j:], "port"
		}
		return base + ":8080", "port"
	case 5, 6:
		if u, ok := loopNear(r, base); ok {
			return u, "loopswap"
		}
		return "http://" + drv.Pick(r, loopHosts) + "/cb", "loopswap"
	case 7:
		switch {
		case strings.HasPrefix(base, "https://"):
			return drv.Pick(r, []string{"http://", "HTTPS://", "Http://"}) + base[8:], "scheme"
		case strings.HasPrefix(base, "http://"):
			return drv.Pick(r, []string{"https://", "HTTP://"}) + base[7:], "scheme"
		}
		return "https://" + base, "scheme"
	case 8:
		return drv.Pick(r, []string{"evil://cb", "javascript:alert(1)", "data:text/html,x", "myapp://callback/evil", "com.example.app:/cb2", "com.evil.app:/cb", "urn:x"}), "custom"
	case 9:
		return base + drv.Pick(r, []string{"*", "?", "[a]", "{a,b}", "\\", "/**", "[", "%2A"}), "globmeta"
	case 10:
		return drv.Pick(r, []string{"https://evil.example/cb", "http://evil.example/cb", "https://app.example.com.evil.example/cb", "https://evil.example/app.example.com/cb"}), "foreign"
	case 11:
		return "", "empty"
	case 12:
		return drv.Pick(r, []string{base + "\x7f", "https://app.example.com/%zz", "http://[::1/cb", base + " x", "http://127.0.0.1:80:80/cb", ":", "https://app.example.com/cb\n"}), "unparseable"
	default:
		return drv.Pick(r, globShots), "globshot"
	}
}

// patternInstance: a string that the registered URI reg would match IF it were read as a
// glob pattern (which nobody opted into): '?' -> some character, '[..]' -> a member of the
// class, '*' -> some text, '{a,b}' -> an alternative. ok=false when reg has no metacharacter.
func patternInstance(r drv.Rand, reg string) (string, bool) {
	var sb strings.Builder
	for i := 0; i < len(reg); i++ {
		switch ch := reg[i]; ch {
		case '?':
			sb.WriteByte(drv.Pick(r, []byte("Xz9/")))
		case '*':
			sb.WriteString(drv.Pick(r, []string{"", "evil", "a/b", "x.y"}))
		case '[':
			j := strings.IndexByte(reg[i+1:], ']')
			if j <= 0 {
				return "", false
			}
			class := strings.TrimLeft(reg[i+1:i+1+j], "^!")
			if class == "" {
				return "", false
			}
			sb.WriteByte(class[r.IntN(len(class))])
			i += j + 1
		case '{':
			j := strings.IndexByte(reg[i+1:], '}')
			if j < 0 {
				return "", false
			}
			sb.WriteString(drv.Pick(r, strings.Split(reg[i+1:i+1+j], ",")))
			i += j + 1
		case '\\':
			if i+1 < len(reg) {
				i++
				sb.WriteByte(reg[i])
			}
		default:
			sb.WriteByte(ch)
		}
	}
	out := sb.String()
	if out == reg {
		return "", false
	}
	if m, err := doublestar.Match(reg, out); err != nil || !m {
		return "", false
	}
	return out, true
}

func genURI(r drv.Rand, c *refstore.Client) (string, string) {
	base := drv.Pick(r, c.Redirects)
	if r.Chance(1, 5) { // a registered loopback URI under a host that is, or only looks like, loopback
		for _, reg := range c.Redirects {
			if _, _, ok := loopTruth(reg); ok {
				if u, ok := loopNear(r, reg); ok {
					return u, "loopnear"
				}
			}
		}
	}
	if r.Chance(1, 4) {
		for _, reg := range c.Redirects {
			if u, ok := patternInstance(r, reg); ok {
				return u, "patshot"
			}
		}
	}
	if c.UseGlobs && r.Chance(1, 3) {
		return drv.Pick(r, globShots), "globshot"
	}
	if r.Chance(2, 5) {
		return base, "exact"
	}
	u, kind := mutate(r, base)
	if kind == "keyword" && !c.UseGlobs && u != "about:blank" { // the bare literal where nothing can match it
		u = strings.TrimSuffix(u, ":")
	}
	return u, kind
}

func genRT(r drv.Rand) string {
	return drv.Pick(r, []string{"code", "code", "code", "id_token token", "id_token", "", "token", "code id_token"})
}

// ---------------------------------------------------------------- direct calls

// wrapErr: how an error travels from where it is made to the error writer. 1 %w once, 2 %w twice,
// 3 op.StatusError, 4 %w around a StatusError, 5 errors.Join with context, 6 (and 0) bare.
func wrapErr(err error, mode int) error {
	if err == nil {
		return nil
	}
	switch mode {
	case 1:
		return fmt.Errorf("validate auth request: %w", err)
	case 2:
		return fmt.Errorf("authorize: %w", fmt.Errorf("validate: %w", err))
	case 3:
		return op.NewStatusError(err, http.StatusBadRequest)
	case 4:
		return fmt.Errorf("authorize: %w", op.NewStatusError(err, http.StatusTeapot))
	case 5:
		return errors.Join(errors.New("while validating the authorization request"), err)
	}
	return err
}

var wrapNames = []string{"default", "w1", "w2", "status", "w-status", "join", "bare"}

// wrapAuthorizer: an authorizer with its own validation (optional interface op.AuthorizeValidator) that
// delegates to the library's and hands the error on with context added.
// With a validator op.Authorize never learns the client, and RedirectToLogin(id, nil, ...) panics once the
// validation SUCCEEDS (finding, see notes/C03.md). The driver therefore uses the validator only for requests
// whose validation fails: a first pass into a throw-away recorder finds out (on success the validator
// answers errValidated, so nothing is stored), then the request is served for real - by the validator
// path when the validation failed, by the provider's own handler otherwise.
type wrapAuthorizer struct {
	op.OpenIDProvider
	mode  int
	valid *bool
}

var errValidated = errors.New("driver: validation succeeded")

func (a wrapAuthorizer) ValidateAuthRequest(ctx context.Context, req *oidc.AuthRequest, st op.Storage, v *op.IDTokenHintVerifier) (string, error) {
	id, err := op.ValidateAuthRequest(ctx, req, st, v)
	if err == nil {
		*a.valid = true
		return "", errValidated
	}
	return id, wrapErr(err, a.mode)
}

var _ op.AuthorizeValidator = wrapAuthorizer{}

var ewFixture *opfix.Fixture
var quietLog = slog.New(slog.NewTextHandler(io.Discard, nil))

// errorWriterCase: the validation error of (client, uri, response type), wrapped, handed to the two error
// writers with the unverified URI in the request, as a custom validator / Server would. A redirect is a
// "redirectable error" (OValidateOther): acceptable only for a registered URI.
func errorWriterCase(r drv.Rand, w *emit.Writer, c *refstore.Client, u, kind, rt string, mode, via int, extra ...string) {
	if ewFixture == nil {
		f, err := opfix.New(refstore.New(opfix.DefaultSigning()), opfix.Options{})
		if err != nil {
			fmt.Fprintln(os.Stderr, "fixture:", err)
			os.Exit(2)
		}
		ewFixture = f
	}
	var err error
	redirected := false
	p := drv.Catch(func() {
		err = op.ValidateAuthReqRedirectURI(c.View(), u, oidc.ResponseType(rt))
		if err == nil {
			return
		}
		authReq := &oidc.AuthRequest{ClientID: c.ID, RedirectURI: u, ResponseType: oidc.ResponseType(rt), State: "st-1", Scopes: []string{"openid"}}
		if via == 0 {
			rec := httptest.NewRecorder()
			op.AuthRequestError(rec, httptest.NewRequest(http.MethodGet, "https://op.example.com/authorize", nil), authReq, wrapErr(err, mode), ewFixture.Provider)
			redirected = rec.Code >= 300 && rec.Code < 400 || rec.Code == http.StatusOK
		} else {
			red, _ := op.TryErrorRedirect(context.Background(), authReq, wrapErr(err, mode), ewFixture.Provider.Encoder(), quietLog)
			redirected = red != nil
		}
	})
	obs := "OValidateOther"
	switch {
	case p != "":
		obs = "OCrash"
	case err == nil:
		obs = emit.Ctor("OValidate", "VOk")
	case !redirected:
		oe := oidc.DefaultToServerError(err, "")
		if oe.IsRedirectDisabled() && oe.ErrorType == oidc.InvalidRequest {
			obs = emit.Ctor("OValidate", "VBad")
		} else if oe.IsRedirectDisabled() && oe.ErrorType == oidc.ServerError {
			obs = emit.Ctor("OValidate", "VGlobErr")
		}
	}
	in := emit.Ctor("IValidate", clientTerm(c), emit.Str(u), emit.Str(rt), tables([]*refstore.Client{c}, []string{u}))
	tags := append([]string{"kind=validate", "via=" + []string{"AuthRequestError", "TryErrorRedirect"}[via], "wrap=" + wrapNames[mode], "app=" + appNames[c.App], "mut=" + kind,
		fmt.Sprintf("globs=%v", c.UseGlobs), fmt.Sprintf("dev=%v", c.Dev)}, extra...)
	if hasBadGlob(c) {
		tags = append(tags, "badglob=1")
	}
	w.Add(emit.Case{Input: in, Observed: obs, Tags: tags,
		Human: map[string]any{"client": clientHuman(c), "uri": u, "response_type": rt, "err": fmt.Sprint(err), "wrap": wrapNames[mode], "redirected": redirected}})
}

func validateCase(r drv.Rand, w *emit.Writer, c *refstore.Client, u, kind, rt string, extra ...string) {
	var err error
	p := drv.Catch(func() { err = op.ValidateAuthReqRedirectURI(c.View(), u, oidc.ResponseType(rt)) })
	obs := "OValidateOther"
	var oe *oidc.Error
	switch {
	case p != "":
		obs = "OCrash"
	case err == nil:
		obs = emit.Ctor("OValidate", "VOk")
	default:
		oe = oidc.DefaultToServerError(err, "")
		if oe.IsRedirectDisabled() && oe.ErrorType == oidc.InvalidRequest {
			obs = emit.Ctor("OValidate", "VBad")
		} else if oe.IsRedirectDisabled() && oe.ErrorType == oidc.ServerError {
			obs = emit.Ctor("OValidate", "VGlobErr")
		}
	}
	in := emit.Ctor("IValidate", clientTerm(c), emit.Str(u), emit.Str(rt), tables([]*refstore.Client{c}, []string{u}))
	tags := append([]string{"kind=validate", "app=" + appNames[c.App], "mut=" + kind, fmt.Sprintf("globs=%v", c.UseGlobs), fmt.Sprintf("dev=%v", c.Dev)}, extra...)
	if hasBadGlob(c) {
		tags = append(tags, "badglob=1")
	}
	w.Add(emit.Case{Input: in, Observed: obs, Tags: tags,
		Human: map[string]any{"client": clientHuman(c), "uri": u, "response_type": rt, "err": fmt.Sprint(err)}})
}

func hasBadGlob(c *refstore.Client) bool {
	if !c.UseGlobs {
		return false
	}
	for _, g := range c.RedirectGlobs {
		if _, err := doublestar.Match(g, "x"); err != nil {
			return true
		}
	}
	return false
}

// ---------------------------------------------------------------- histories

// errKind: the error VALUE a failing storage call returns.
type errKind struct {
	kind int    // 0 plain Go error, 1 typed *oidc.Error with code, 2 typed and redirect-disabled
	code string // kind 1
	wrap bool   // wrapped once more with fmt.Errorf("%w") (not a model dimension: errors.As sees through)
}

func (k errKind) term() string {
	switch k.kind {
	case 1:
		return emit.Ctor("EK_Typed", emit.Str(k.code))
	case 2:
		return "EK_NoRedirect"
	}
	return "EK_Plain"
}

func (k errKind) mk() func() error {
	return func() error {
		var e error
		switch k.kind {
		case 1:
			switch k.code {
			case "invalid_client":
				e = oidc.ErrInvalidClient().WithDescription("no such client")
			case "access_denied":
				e = oidc.ErrAccessDenied()
			case "login_required":
				e = oidc.ErrLoginRequired().WithDescription("storage: no session")
			case "interaction_required":
				e = oidc.ErrInteractionRequired()
			case "invalid_request":
				e = oidc.ErrInvalidRequest().WithDescription("storage: no")
			case "unauthorized_client":
				e = oidc.ErrUnauthorizedClient()
			case "invalid_scope":
				e = oidc.ErrInvalidScope()
			case "request_not_supported":
				e = oidc.ErrRequestNotSupported()
			default:
				e = oidc.ErrServerError().WithDescription("backend down")
			}
		case 2:
			e = oidc.ErrInvalidRequestRedirectURI().WithDescription("storage says no")
		default:
			e = errors.New("storage: injected failure")
		}
		if k.wrap {
			e = fmt.Errorf("storage layer: %w", e)
		}
		return e
	}
}

func (k errKind) tag() string {
	return []string{"plain", "typed", "noredirect"}[k.kind]
}

// the OAuth error classes a storage may answer with
var typedCodes = []string{"invalid_client", "server_error", "access_denied", "login_required", "interaction_required", "invalid_request", "unauthorized_client", "invalid_scope", "request_not_supported"}

func genErrKind(r drv.Rand) errKind {
	k := errKind{wrap: r.Chance(1, 3)}
	switch r.IntN(5) {
	case 0, 1:
	case 2, 3:
		k.kind, k.code = 1, drv.Pick(r, typedCodes)
	default:
		k.kind = 2
	}
	return k
}

// robj: the `request` parameter. kind 0 absent, 1 not a JWT, 2 a JWT really signed by the driver.
type robj struct {
	kind        int
	iss, client string // iss and client_id claims
	audOK       bool   // aud = issuer of the request (else another issuer)
	signer      string // "client:<id>" = that client's registered key (kid k1), "attacker", "wrongkid"
	rt, uri     string
	mode        string
	prompt      int // -1 absent, 0 "login", 1 "none login", 2 "none"
	scope       string
}

func clientKey(id string) *ecdsa.PrivateKey { return opfix.ECKey("client-" + id) }

// sigOK: does the signature verify under the key the storage returns for (kid, iss)?
func (o robj) sigOK(clients []*refstore.Client) bool {
	if o.signer != "client:"+o.iss {
		return false
	}
	for _, c := range clients {
		if c.ID == o.iss {
			return true
		}
	}
	return false
}

func (o robj) term(clients []*refstore.Client) string {
	switch o.kind {
	case 0:
		return "RP_None"
	case 1:
		return "RP_Garbage"
	}
	pr := emit.None
	if o.prompt >= 0 {
		pr = emit.Some([]string{"P_Ok", "P_Bad", "P_None"}[o.prompt])
	}
	return emit.Ctor("RP_Signed", emit.Ctor("Build_robj", emit.Str(o.iss), emit.Str(o.client), emit.Bool(o.audOK), emit.Bool(o.sigOK(clients)),
		emit.Str(o.rt), emit.Str(o.uri), emit.Str(o.mode), pr))
}

func (o robj) token(issuer string) string {
	if o.kind == 1 {
		return "not-a-jwt"
	}
	claims := map[string]any{"state": "st-ro"}
	if o.iss != "" {
		claims["iss"] = o.iss
	}
	if o.client != "" {
		claims["client_id"] = o.client
	}
	if o.audOK {
		claims["aud"] = []string{issuer}
	} else {
		claims["aud"] = []string{"https://elsewhere.example"}
	}
	if o.rt != "" {
		claims["response_type"] = o.rt
	}
	if o.uri != "" {
		claims["redirect_uri"] = o.uri
	}
	if o.mode != "" {
		claims["response_mode"] = o.mode
	}
	if o.prompt >= 0 {
		claims["prompt"] = []string{"login", "none login", "none"}[o.prompt]
	}
	if o.scope != "" {
		claims["scope"] = o.scope
	}
	var key *ecdsa.PrivateKey
	kid := "k1"
	switch {
	case strings.HasPrefix(o.signer, "client:"):
		key = clientKey(o.signer[len("client:"):])
	case o.signer == "wrongkid":
		key, kid = clientKey(o.iss), "k9"
	default:
		key = opfix.ECKey("attacker")
	}
	signer, err := jose.NewSigner(jose.SigningKey{Algorithm: jose.ES256, Key: &jose.JSONWebKey{Key: key, KeyID: kid}}, (&jose.SignerOptions{}).WithType("JWT"))
	if err != nil {
		panic(err)
	}
	b, _ := json.Marshal(claims)
	jws, err := signer.Sign(b)
	if err != nil {
		panic(err)
	}
	t, _ := jws.CompactSerialize()
	return t
}

type areq struct {
	client, uri, rt, mode string
	malformed             bool
	ro                    robj
	prompt                int // 0 ok, 1 bad, 2 none
	noscope, hintBad      bool
	host                  string // Request.Host ("" = op.example.com)
	hintIss               string // "" = no signed hint; else a hint really signed for this issuer is sent
	fault                 int    // 0 none, 1 GetClientByClientID, 2 CreateAuthRequest
	fkind                 errKind
	dups                  []string          // redirect_uri sent more than once: the values before the last one (= uri), in Request.Form order
	dupFirst              map[string]string // earlier value of another repeated parameter (state, response_type, client_id, response_mode); not a model dimension: the last value counts
	post                  int               // 0 GET; 1 POST, everything in the body; 2 POST, the earlier values of repeated parameters in the body, the rest in the query (Request.Form = body values, then query values)
}

func (q areq) term() string {
	return emit.Ctor("Build_areq", emit.Str(q.client), emit.Str(q.uri), emit.Str(q.rt), emit.Str(q.mode),
		emit.Bool(q.malformed), q.ro.term(termClients), []string{"P_Ok", "P_Bad", "P_None"}[q.prompt],
		emit.Bool(q.noscope), emit.Bool(q.hintBad), q.faultTerm(), emit.StrList(q.dups))
}

// termClients: the registrations of the session being emitted (sigOK needs them)
var termClients []*refstore.Client

func (q areq) faultTerm() string {
	switch q.fault {
	case 1:
		return emit.Ctor("AF_GetClient", q.fkind.term())
	case 2:
		return emit.Ctor("AF_Create", q.fkind.term())
	}
	return "AF_None"
}

func (q areq) values() url.Values {
	v := url.Values{"state": {"st-1"}, "nonce": {"n"}}
	if q.client != "" {
		v.Set("client_id", q.client)
	}
	if q.uri != "" {
		v.Set("redirect_uri", q.uri)
	}
	if len(q.dups) > 0 {
		v["redirect_uri"] = append(append([]string{}, q.dups...), q.uri)
	}
	if q.rt != "" {
		v.Set("response_type", q.rt)
	}
	if q.mode != "" {
		v.Set("response_mode", q.mode)
	}
	if q.malformed {
		v.Set("max_age", "x")
	}
	if q.ro.kind != 0 {
		iss := opfix.Issuer
		if q.host != "" {
			iss = "https://" + q.host
		}
		v.Set("request", q.ro.token(iss))
	}
	switch q.prompt {
	case 1:
		v.Set("prompt", "none login")
	case 2:
		v.Set("prompt", "none")
	}
	if !q.noscope {
		v.Set("scope", "openid profile")
	}
	if q.hintIss != "" {
		v.Set("id_token_hint", signHint(q.hintIss))
	} else if q.hintBad {
		v.Set("id_token_hint", "aaa.bbb.ccc")
	}
	for k, first := range q.dupFirst {
		if last, ok := v[k]; ok {
			v[k] = append([]string{first}, last...)
		}
	}
	return v
}

type hop struct {
	kind   int // 0 authorize, 1 login, 2 callback
	router opfix.Router
	q      areq
	k      int // login / callback target; -1 = no id
	fault  int // callback: 0 none 1 AuthRequestByID 2 GetClientByClientID 3 SaveAuthCode
	fkind  errKind
	cut    int // write fault on the answer: 0 none, 1 early (cutN bytes of the body pass), 2 late (cutN bytes pass behind the first form tag)
	cutN   int // not a model dimension
	// callback: where the id parameter travels (see cbIDs). 0 GET ?id=k (k = -1: no id parameter at all); 1 body id=k;
	// 2 POST with ?id=k and an empty body; 3 body id=k, query id=k2; 4 GET ?id=k&id=k2; 5 body id=k&id=k2.
	// In 1-5 an index of -1 is an EMPTY value (id=), an index beyond the created requests an id nobody has.
	place  int
	k2     int
	method string // placements with a body: "" = POST, or PUT / PATCH (ParseForm reads their bodies too); not a model dimension
}

var placeNames = []string{"query", "body", "postquery", "body+query", "query2", "body2"}

// cbIDs: the values of the callback's id parameter in the order of Request.Form (form body first, then URL query).
func (h hop) cbIDs() (body, query []int) {
	switch h.place {
	case 1:
		body = []int{h.k}
	case 2:
		query = []int{h.k}
	case 3:
		body, query = []int{h.k}, []int{h.k2}
	case 4:
		query = []int{h.k, h.k2}
	case 5:
		body = []int{h.k, h.k2}
	default:
		if h.k >= 0 {
			query = []int{h.k}
		}
	}
	return
}

func idsTerm(ks []int) string {
	out := make([]string, len(ks))
	for i, k := range ks {
		if k < 0 {
			out[i] = emit.None
		} else {
			out[i] = emit.Some(emit.Nat(k))
		}
	}
	return emit.List(out)
}

// genPlace: a callback whose id does not (only) travel in the query of a GET: the login UI finishes with a form
// POST, or the request names a second request - another flow's, the same, an unknown or an empty one - next to k.
func genPlace(r drv.Rand, h *hop, nids int) {
	h.place = 1 + r.IntN(5)
	h.k2 = drv.Pick(r, []int{-1, 7, h.k, r.IntN(nids + 1), r.IntN(nids + 1), r.IntN(nids + 1)})
	if r.Chance(1, 8) { // the pair the other way round: the unknown / empty / other value first
		h.k, h.k2 = h.k2, h.k
	}
	if r.Chance(1, 6) {
		h.method = drv.Pick(r, []string{http.MethodPut, http.MethodPatch})
	}
}

var cutNames = []string{"W_None", "W_Early", "W_Late"}

// cutWriter: a ResponseWriter whose connection fails while the body is written (as the writer of
// http.TimeoutHandler after its time-out, a reset HTTP/2 stream, a closed connection). Status and
// headers are recorded as net/http would send them (first WriteHeader wins, headers frozen then).
type cutWriter struct {
	rec    *httptest.ResponseRecorder
	late   bool
	left   int
	failed bool
}

func (c *cutWriter) Header() http.Header  { return c.rec.Header() }
func (c *cutWriter) WriteHeader(code int) { c.rec.WriteHeader(code) }
func (c *cutWriter) Write(b []byte) (int, error) {
	if c.failed {
		return 0, http.ErrHandlerTimeout
	}
	pass := c.left
	if c.late {
		if i := bytes.Index(b, []byte("<form")); i >= 0 {
			if j := bytes.IndexByte(b[i:], '>'); j >= 0 {
				pass = i + j + 1 + c.left
			}
		}
	}
	if len(b) <= pass {
		if !c.late {
			c.left -= len(b)
		}
		return c.rec.Write(b)
	}
	c.failed = true
	c.rec.Write(b[:pass])
	return pass, http.ErrHandlerTimeout
}

// doCut: opfix.Do with a failing connection.
func doCut(h http.Handler, req *http.Request, late bool, n int) *opfix.Resp {
	cw := &cutWriter{rec: httptest.NewRecorder(), late: late, left: n}
	out := &opfix.Resp{}
	func() {
		defer func() {
			if x := recover(); x != nil {
				out.Panic = fmt.Sprint(x)
			}
		}()
		h.ServeHTTP(cw, req)
	}()
	res := cw.rec.Result()
	out.Status = res.StatusCode
	out.Header = res.Header
	b, _ := io.ReadAll(res.Body)
	out.Body = string(b)
	return out
}

func routerName(r opfix.Router) string {
	if r == opfix.Legacy {
		return "Legacy"
	}
	return "Provider"
}

func (h hop) term() string {
	switch h.kind {
	case 0:
		return emit.Ctor("Authorize", routerName(h.router), h.q.term(), cutNames[h.cut])
	case 1:
		return emit.Ctor("Login", emit.Nat(h.k))
	default:
		body, query := h.cbIDs()
		k := emit.Ctor("Build_cbids", idsTerm(body), idsTerm(query))
		ft := "CF_None"
		switch h.fault {
		case 1:
			ft = "CF_ByID"
		case 2:
			ft = emit.Ctor("CF_GetClient", h.fkind.term())
		case 3:
			ft = emit.Ctor("CF_SaveCode", h.fkind.term())
		}
		return emit.Ctor("Callback", routerName(h.router), k, ft, cutNames[h.cut])
	}
}

func pageTerm(resp *opfix.Resp, cut int) string {
	code := ""
	if resp.JSON != nil && cut == 0 { // of a page whose body was cut only the status is observed
		code = resp.OAuthError()
	}
	return emit.Ctor("OPage", fmt.Sprintf("%d%%N", resp.Status), emit.Str(code))
}

// observe projects a response to the `out` vocabulary. newID/prefix: for authorize.
// cut: the write fault the answer was written under. What the user agent would follow is the
// Location of a 302 and otherwise the FIRST form of the page.
func observe(resp *opfix.Resp, newID, prefix string, cut int) string {
	switch {
	case resp.Panic != "":
		return "OPanic"
	case resp.Status == http.StatusFound:
		loc := resp.Header.Get("Location")
		if newID != "" && loc == prefix+newID {
			return emit.Ctor("OLogin", emit.Str(prefix))
		}
		frag, code, target := projectLocation(loc)
		return emit.Ctor("ORedirect", emit.Bool(frag), emit.Str(code), emit.Str(target))
	case resp.Status == http.StatusOK:
		if t, blocked, ok := formTarget(resp.Body); ok {
			if blocked {
				return "OFormBlocked"
			}
			return emit.Ctor("OForm", emit.Str(t))
		}
		if cut == 1 {
			return "OUndelivered"
		}
		return "OOther"
	case resp.Status >= 300 && resp.Status < 400:
		return "OOther"
	default:
		return pageTerm(resp, cut)
	}
}

type session struct {
	reqobj              bool
	clients             []*refstore.Client
	store               *refstore.Store
	f                   *opfix.Fixture
	fail                *refstore.Failing
	notfound            errKind
	ids                 []string
	outs, opTerms, uris []string
	human               []map[string]any
	vwrap               int          // Provider router: 0 = the library's own validation; else an op.AuthorizeValidator that wraps its errors (wrapErr mode)
	wrapHandler         http.Handler // /authorize of the Provider router with that validator
}

// signHint: an ID token really signed with the provider's key for issuer iss.
func signHint(iss string) string {
	sk := opfix.DefaultSigning()
	signer, err := jose.NewSigner(jose.SigningKey{Algorithm: sk.Alg, Key: &jose.JSONWebKey{Key: sk.Priv, KeyID: sk.KID}}, (&jose.SignerOptions{}).WithType("JWT"))
	if err != nil {
		panic(err)
	}
	now := time.Now()
	b, _ := json.Marshal(map[string]any{"iss": iss, "sub": "alice", "aud": []string{"c0"}, "azp": "c0",
		"iat": now.Add(-time.Hour).Unix(), "exp": now.Add(time.Hour).Unix()})
	jws, err := signer.Sign(b)
	if err != nil {
		panic(err)
	}
	t, _ := jws.CompactSerialize()
	return t
}

// dynamicIssuer sessions derive the issuer from Request.Host (op.IssuerFromHost)
var dynamicIssuer bool

// sessionWrap: the validator wrap mode of the next session (0 = none)
var sessionWrap int

// sessionNotFound: how the storage of the next session reports an unknown client
var sessionNotFound errKind

func hostOf(q areq) string {
	if q.host == "" {
		return "op.example.com"
	}
	return q.host
}

func newSession(reqobj bool, clients []*refstore.Client) *session {
	store := refstore.New(opfix.DefaultSigning())
	for _, c := range clients {
		store.Clients[c.ID] = c
	}
	store.Users["alice"] = &refstore.User{Subject: "alice", Name: "Alice"}
	issuer := op.StaticIssuer(opfix.Issuer)
	if dynamicIssuer {
		issuer = op.IssuerFromHost("")
	}
	nf := sessionNotFound
	fail := &refstore.Failing{Errs: map[string]func() error{}}
	if nf.kind != 0 || nf.wrap {
		fail.NotFound = nf.mk()
	}
	f, err := opfix.NewWithIssuerStorage(store, opfix.Options{NoReqObj: !reqobj}, issuer, func(st op.Storage) op.Storage {
		fail.Storage = st
		return fail
	})
	if err != nil {
		fmt.Fprintln(os.Stderr, "fixture:", err)
		os.Exit(2)
	}
	termClients = clients
	s := &session{reqobj: reqobj, clients: clients, store: store, f: f, fail: fail, notfound: nf, vwrap: sessionWrap}
	if s.vwrap != 0 {
		mode, def := s.vwrap, f.Handlers[opfix.Provider]
		s.wrapHandler = op.NewIssuerInterceptor(f.Provider.IssuerFromRequest).HandlerFunc(func(w http.ResponseWriter, r *http.Request) {
			r.ParseForm() // parsed once here: both passes work on copies of r and share Form / PostForm
			valid := false
			wa := wrapAuthorizer{OpenIDProvider: f.Provider, mode: mode, valid: &valid}
			op.Authorize(httptest.NewRecorder(), r, wa)
			if valid {
				def.ServeHTTP(w, r)
				return
			}
			op.Authorize(w, r, wa)
		})
	}
	return s
}

// get sends one GET to the fixture, with the write fault of h if it has one.
func (s *session) get(h hop, path string, q url.Values) *opfix.Resp {
	hd := s.f.Handlers[h.router]
	custom := s.wrapHandler != nil && h.router == opfix.Provider && path == "/authorize"
	if custom {
		hd = s.wrapHandler
	}
	if h.cut == 0 && h.q.post == 0 && !custom {
		return s.f.GetAt(h.router, hostOf(h.q), "", path, q)
	}
	target := "https://" + hostOf(h.q) + path
	var req *http.Request
	if h.q.post == 0 {
		if q != nil {
			target += "?" + q.Encode()
		}
		req = httptest.NewRequest(http.MethodGet, target, nil)
	} else {
		body, query := url.Values{}, url.Values{}
		for k, vs := range q {
			switch {
			case h.q.post == 1:
				body[k] = vs
			case len(vs) > 1:
				body[k], query[k] = vs[:len(vs)-1], vs[len(vs)-1:]
			default:
				query[k] = vs
			}
		}
		if len(query) > 0 {
			target += "?" + query.Encode()
		}
		req = httptest.NewRequest(http.MethodPost, target, strings.NewReader(body.Encode()))
		req.Header.Set("Content-Type", "application/x-www-form-urlencoded")
	}
	if h.cut == 0 {
		return opfix.Do(hd, req)
	}
	return doCut(hd, req, h.cut == 2, h.cutN)
}

func (s *session) step(h hop) {
	store := s.store
	s.opTerms = append(s.opTerms, h.term())
	store.FaultMethod = ""
	switch h.kind {
	case 0:
		s.uris = append(s.uris, h.q.uri)
		s.uris = append(s.uris, h.q.dups...)
		if h.q.ro.kind == 2 {
			s.uris = append(s.uris, h.q.ro.uri)
		}
		before := map[string]bool{}
		for id := range store.AuthReqs {
			before[id] = true
		}
		if m := []string{"", "GetClientByClientID", "CreateAuthRequest"}[h.q.fault]; m != "" {
			s.fail.Errs[m] = h.q.fkind.mk()
		}
		resp := s.get(h, "/authorize", h.q.values())
		clear(s.fail.Errs)
		newID, prefix := "", ""
		var fresh []string
		for id := range store.AuthReqs {
			if !before[id] {
				fresh = append(fresh, id)
			}
		}
		sort.Strings(fresh)
		if len(fresh) > 0 {
			newID = fresh[0]
			if c, ok := store.Clients[h.q.client]; ok {
				prefix = loginPrefix(c)
			}
		}
		o := observe(resp, newID, prefix, h.cut)
		if newID != "" {
			if strings.HasPrefix(o, "(OLogin") {
				s.ids = append(s.ids, newID)
			} else { // a request was stored but the answer is not the login redirect
				o = "OOther"
			}
		}
		s.outs = append(s.outs, o)
		s.human = append(s.human, map[string]any{"op": "authorize", "router": h.router.String(), "query": h.q.values(), "post": h.q.post, "write_fault": cutNames[h.cut], "write_fault_bytes": h.cutN, "status": resp.Status, "location": resp.Header.Get("Location"), "body": trunc(resp.Body)})
	case 1:
		if h.k < len(s.ids) {
			store.Login(s.ids[h.k], "alice")
		}
		s.outs = append(s.outs, "ONone")
		s.human = append(s.human, map[string]any{"op": "login", "k": h.k})
	default:
		bodyIDs, queryIDs := h.cbIDs()
		vals := func(ks []int) url.Values {
			v := url.Values{}
			for _, k := range ks {
				switch {
				case k < 0:
					v.Add("id", "")
				case k < len(s.ids):
					v.Add("id", s.ids[k])
				default:
					v.Add("id", "nope")
				}
			}
			return v
		}
		q, body := vals(queryIDs), vals(bodyIDs)
		if m := []string{"", "AuthRequestByID", "GetClientByClientID", "SaveAuthCode"}[h.fault]; m != "" {
			s.fail.Errs[m] = h.fkind.mk()
		}
		var resp *opfix.Resp
		method := http.MethodGet
		if h.place == 0 {
			resp = s.get(h, "/authorize/callback", q)
		} else {
			target := "https://" + hostOf(h.q) + "/authorize/callback"
			if len(q) > 0 {
				target += "?" + q.Encode()
			}
			var req *http.Request
			if h.place == 4 {
				req = httptest.NewRequest(method, target, nil)
			} else {
				method = http.MethodPost
				if h.method != "" {
					method = h.method
				}
				req = httptest.NewRequest(method, target, strings.NewReader(body.Encode()))
				req.Header.Set("Content-Type", "application/x-www-form-urlencoded")
			}
			if h.cut == 0 {
				resp = opfix.Do(s.f.Handlers[h.router], req)
			} else {
				resp = doCut(s.f.Handlers[h.router], req, h.cut == 2, h.cutN)
			}
		}
		clear(s.fail.Errs)
		s.outs = append(s.outs, observe(resp, "", "", h.cut))
		s.human = append(s.human, map[string]any{"op": "callback", "router": h.router.String(), "k": h.k, "method": method, "id_in_body": body["id"], "id_in_query": q["id"], "fault": h.fault, "write_fault": cutNames[h.cut], "write_fault_bytes": h.cutN, "status": resp.Status, "location": resp.Header.Get("Location"), "body": trunc(resp.Body)})
	}
}

func (s *session) emit(w *emit.Writer, tags []string) {
	cl := make([]string, len(s.clients))
	for i, c := range s.clients {
		cl[i] = clientTerm(c)
	}
	in := emit.Ctor("IHistory", emit.Bool(s.reqobj), s.notfound.term(), emit.List(cl), tables(s.clients, s.uris), emit.List(s.opTerms))
	w.Add(emit.Case{Input: in, Observed: emit.Ctor("OHistory", emit.List(s.outs)), Tags: tags,
		Human: map[string]any{"clients": clientsHuman(s.clients), "notfound": s.notfound.tag(), "steps": s.human}})
}

func runHistory(w *emit.Writer, reqobj bool, clients []*refstore.Client, ops []hop, tags []string) {
	s := newSession(reqobj, clients)
	for _, h := range ops {
		s.step(h)
	}
	s.emit(w, tags)
}

func trunc(s string) string {
	if len(s) > 160 {
		return s[:160]
	}
	return s
}

func pickRouter(r drv.Rand) opfix.Router {
	if r.Bool() {
		return opfix.Legacy
	}
	return opfix.Provider
}

// response modes: the three defined ones, absent, and values that only a lenient comparison would accept
var histModes = []string{"", "", "", "", "query", "query", "fragment", "fragment", "form_post", "form_post", "bogus", "null", "FORM_POST", "form_post ", "Query", " fragment"}

func genHistory(r drv.Rand, w *emit.Writer) {
	nc := 1 + r.IntN(2)
	var clients []*refstore.Client
	for i := 0; i < nc; i++ {
		clients = append(clients, genClient(r, fmt.Sprintf("c%d", i)))
	}
	reqobj := r.Bool()
	var ops []hop
	dynamicIssuer = r.Chance(1, 3)
	dyn := dynamicIssuer
	sessionNotFound = genErrKind(r)
	nfTag := sessionNotFound.tag()
	if r.Chance(1, 3) {
		sessionWrap = 1 + r.IntN(6)
	}
	wrapTag := "vwrap=" + wrapNames[sessionWrap]
	s := newSession(reqobj, clients)
	dynamicIssuer = false
	sessionWrap = 0
	sessionNotFound = errKind{}
	do := func(h hop) { ops = append(ops, h); s.step(h) }
	nflows := 1 + r.IntN(2)
	var muts []string
	for fl := 0; fl < nflows; fl++ {
		c := drv.Pick(r, clients)
		uri, kind := genURI(r, c)
		if r.Chance(1, 2) { // flow-first: mostly a URI that can pass
			uri, kind = drv.Pick(r, c.Redirects), "exact"
		}
		q := areq{client: c.ID, uri: uri, rt: drv.Pick(r, []string{"code", "code", "code", "id_token token", "id_token"}),
			mode: drv.Pick(r, histModes)}
		muts = append(muts, kind)
		mut := "none"
		if r.Chance(2, 5) { // an error-provoking parameter before / after URI validation
			switch r.IntN(13) {
			case 11, 12:
				q.client, mut = "nobody", "client"
			case 0:
				q.malformed, mut = true, "malformed"
			case 1:
				q.ro, mut = robj{kind: 1}, "reqobj"
			case 2:
				q.prompt, mut = 1, "promptbad"
			case 3:
				q.prompt, mut = 2, "promptnone"
			case 4:
				q.noscope, mut = true, "noscope"
			case 5:
				q.hintBad, mut = true, "hintbad"
			case 6:
				q.fault, q.fkind = 1, genErrKind(r)
				mut = "faultclient-" + q.fkind.tag()
			case 7:
				q.fault, q.fkind = 2, genErrKind(r)
				mut = "faultcreate-" + q.fkind.tag()
			case 8:
				q.rt, mut = drv.Pick(r, []string{"", "token", "code id_token"}), "rt"
			case 9:
				q.client, mut = drv.Pick(r, []string{"", "nobody", strings.ToUpper(c.ID), c.ID + " ", " " + c.ID, c.ID + "\x00", "null", "undefined"}), "client"
			default:
				q.uri, mut = "", "nouri"
			}
		}
		if r.Chance(1, 6) { // repeated parameters, mostly together with an error that follows the validation
			genDups(r, c, clients, &q)
			mut += "+dup"
			if mut == "none+dup" && r.Chance(2, 3) {
				if r.Bool() {
					q.prompt, mut = 2, "promptnone+dup"
				} else {
					q.fault, q.fkind = 2, genErrKind(r)
					mut = "faultcreate-" + q.fkind.tag() + "+dup"
				}
			}
		}
		if q.ro.kind == 0 && r.Chance(1, 4) { // a really signed request object, parameters inside equal to / different from the outer ones
			o := robj{kind: 2, iss: q.client, client: q.client, audOK: true, signer: "client:" + q.client, rt: q.rt, prompt: -1}
			switch r.IntN(6) {
			case 0:
				o.uri = q.uri
			case 1:
				o.uri = drv.Pick(r, c.Redirects)
			case 2, 3:
				o.uri, _ = mutate(r, drv.Pick(r, c.Redirects))
			case 4:
				o.uri = "https://evil.example/cb"
			}
			switch r.IntN(8) {
			case 0, 1, 2, 3: // the plain parameter is fine: only the one inside decides
				q.uri = drv.Pick(r, c.Redirects)
			case 4:
				if len(q.dups) == 0 {
					q.uri = ""
				}
			case 5, 6: // the plain parameter is not registered, the one inside may be
				q.uri = drv.Pick(r, []string{"https://evil.example/cb", "http://evil.example/cb"})
			}
			if r.Chance(1, 4) {
				switch r.IntN(8) {
				case 0:
					o.iss = drv.Pick(r, []string{"c1", "nobody", ""})
				case 1:
					o.client = drv.Pick(r, []string{"c1", "", "nobody"})
				case 2:
					o.audOK = false
				case 3:
					o.signer = "attacker"
				case 4:
					o.signer = "wrongkid"
				case 5:
					o.signer = "client:" + drv.Pick(r, []string{"c0", "c1"})
				case 6:
					o.rt = drv.Pick(r, []string{"", "id_token", "code"})
				default:
					o.iss, o.client = "", ""
				}
			}
			if r.Chance(1, 4) {
				o.mode = drv.Pick(r, []string{"query", "fragment", "form_post"})
			}
			if r.Chance(1, 5) {
				o.prompt = r.IntN(3)
			}
			if r.Bool() {
				o.scope = "openid email"
			}
			q.ro = o
			mut += "+signedro"
		}
		if dyn { // several hosts of one provider instance; hints signed for one host presented at another
			q.host = drv.Pick(r, []string{"a.example.com", "b.example.com"})
			if r.Chance(1, 2) && !q.hintBad {
				q.hintIss = "https://" + drv.Pick(r, []string{"a.example.com", "b.example.com"})
				q.hintBad = q.hintIss != "https://"+q.host
				mut += "+signedhint"
			}
		}
		router := pickRouter(r)
		nb := len(s.ids)
		do(hop{kind: 0, router: router, q: q})
		tagsMut := "err=" + mut
		muts = append(muts, tagsMut)
		k := nb // the request this flow created, if it did
		if len(s.ids) == nb && nb > 0 && r.Bool() {
			k = r.IntN(nb) // otherwise sometimes go on with an older one
		}
		if !r.Chance(1, 5) {
			do(hop{kind: 1, k: k})
		}
		cb := hop{kind: 2, router: pickRouter(r), k: k}
		if r.Chance(1, 4) {
			cb.fault, cb.fkind = 1+r.IntN(3), genErrKind(r)
		}
		if r.Chance(1, 10) {
			cb.k = drv.Pick(r, []int{-1, 7})
		}
		if r.Chance(1, 3) {
			genPlace(r, &cb, len(s.ids))
		}
		do(cb)
		if r.Chance(1, 4) { // replayed callback, maybe on the other router
			cb2 := hop{kind: 2, router: pickRouter(r), k: r.IntN(len(s.ids) + 1)}
			if r.Chance(1, 3) {
				genPlace(r, &cb2, len(s.ids))
			}
			do(cb2)
		}
	}
	tags := []string{"kind=history", fmt.Sprintf("clients=%d", nc), fmt.Sprintf("reqobj=%v", reqobj), fmt.Sprintf("dynissuer=%v", dyn), "notfound=" + nfTag, wrapTag}
	seen := map[string]bool{}
	for _, m := range muts {
		t := m
		if !strings.HasPrefix(m, "err=") {
			t = "mut=" + m
		}
		if !seen[t] {
			seen[t] = true
			tags = append(tags, t)
		}
	}
	for _, c := range clients {
		if hasBadGlob(c) && !seen["badglob"] {
			seen["badglob"] = true
			tags = append(tags, "badglob=1")
		}
	}
	for _, o := range ops {
		t := "router=" + o.router.String()
		if o.kind != 1 && !seen[t] {
			seen[t] = true
			tags = append(tags, t)
		}
	}
	tags = append(tags, placeTags(ops)...)
	s.emit(w, tags)
}

// placeTags: the callback id placements of a history other than the plain GET query.
func placeTags(ops []hop) []string {
	seen := map[string]bool{}
	var tags []string
	for _, o := range ops {
		if o.kind == 2 && o.place != 0 && !seen[placeNames[o.place]] {
			seen[placeNames[o.place]] = true
			tags = append(tags, "cbid="+placeNames[o.place])
		}
	}
	sort.Strings(tags)
	return tags
}

// genDups: the request repeats parameters. redirect_uri twice or three times - an unregistered value
// before or behind a registered one -, maybe state / response_type / client_id / response_mode as well,
// in the query, in the body, or split over both. The decoder keeps the LAST value of Request.Form; every
// answer must go to a URI that is registered, whichever value some other piece of code reads.
func genDups(r drv.Rand, c *refstore.Client, clients []*refstore.Client, q *areq) {
	reg := drv.Pick(r, c.Redirects)
	var evil string
	switch r.IntN(5) {
	case 0, 1:
		evil = drv.Pick(r, []string{"https://evil.example/cb", "http://evil.example/cb", "https://evil.example/cb?x=1#f", "evil://cb"})
	case 2:
		evil, _ = mutate(r, reg)
	case 3:
		evil = drv.Pick(r, drv.Pick(r, clients).Redirects)
	default:
		evil = drv.Pick(r, c.Redirects)
	}
	switch r.IntN(5) {
	case 0, 1:
		q.dups, q.uri = []string{evil}, reg
	case 2:
		q.dups, q.uri = []string{reg}, evil
	case 3:
		q.dups, q.uri = []string{evil, drv.Pick(r, c.Redirects)}, reg
	default:
		q.dups = []string{evil} // whatever the flow chose stays last
		if q.uri == "" {
			q.uri = reg
		}
	}
	q.dupFirst = map[string]string{}
	if r.Chance(1, 3) {
		q.dupFirst["state"] = "first-state"
	}
	if r.Chance(1, 4) {
		q.dupFirst["response_type"] = drv.Pick(r, []string{"code", "id_token token", "id_token", "bogus"})
	}
	if r.Chance(1, 4) {
		q.dupFirst["client_id"] = drv.Pick(r, []string{"nobody", drv.Pick(r, clients).ID, ""})
	}
	if r.Chance(1, 4) {
		q.dupFirst["response_mode"] = drv.Pick(r, []string{"query", "fragment", "form_post"})
	}
	q.post = r.IntN(3)
}

// directedDup: redirect_uri repeated (attacker value first / last) or overridden by a signed request
// object, on both routers, with every error that can follow the validation, and on the success path.
func directedDup(w *emit.Writer) {
	const reg, evil = "https://app.example.com/cb", "https://evil.example/cb"
	web := withKey(&refstore.Client{ID: "c0", App: op.ApplicationTypeWeb, RespTypes: []oidc.ResponseType{oidc.ResponseTypeCode, oidc.ResponseTypeIDToken},
		Redirects: []string{reg, "https://app.example.com/cb2"}, ATType: op.AccessTokenTypeBearer})
	type ev struct {
		name string
		set  func(q *areq)
	}
	errs := []ev{{"none", func(q *areq) {}}, {"promptnone", func(q *areq) { q.prompt = 2 }}, {"hintbad", func(q *areq) { q.hintBad = true }},
		{"rt", func(q *areq) { q.rt = "id_token" }}}
	for _, k := range []errKind{{}, {kind: 1, code: "access_denied"}, {kind: 1, code: "login_required", wrap: true}, {kind: 1, code: "server_error"}, {kind: 2}} {
		k := k
		errs = append(errs, ev{"faultcreate-" + k.tag(), func(q *areq) { q.fault, q.fkind = 2, k }})
	}
	for _, router := range []opfix.Router{opfix.Provider, opfix.Legacy} {
		for vi, variant := range []string{"evilfirst", "evillast", "roregistered", "roevil"} {
			for _, e := range errs {
				for _, post := range []int{0, 2} {
					q := areq{client: "c0", rt: "code", post: post, dupFirst: map[string]string{"state": "first-state"}}
					switch vi {
					case 0:
						q.dups, q.uri = []string{evil}, reg
					case 1:
						q.dups, q.uri = []string{reg}, evil
					case 2:
						q.uri = evil
						q.ro = robj{kind: 2, iss: "c0", client: "c0", audOK: true, signer: "client:c0", rt: "code", uri: reg, prompt: -1, scope: "openid"}
					default:
						q.uri = reg
						q.ro = robj{kind: 2, iss: "c0", client: "c0", audOK: true, signer: "client:c0", rt: "code", uri: evil, prompt: -1, scope: "openid"}
					}
					e.set(&q)
					if q.ro.kind == 2 {
						q.ro.rt = q.rt
					}
					ops := []hop{{kind: 0, router: router, q: q}, {kind: 1, k: 0}, {kind: 2, router: router, k: 0}}
					runHistory(w, true, []*refstore.Client{web}, ops, []string{"kind=history", "directed=repeated", "dup=" + variant, "err=" + e.name, "router=" + router.String(), fmt.Sprintf("post=%d", post)})
				}
			}
		}
	}
}

func genCut(r drv.Rand) (int, int) {
	if r.Chance(1, 4) {
		return 2, drv.Pick(r, []int{0, 1, 40, 200})
	}
	return 1, drv.Pick(r, []int{0, 0, 1, 16, 64, 100})
}

// genSequence: several clients answered by ONE provider instance, mostly on the success path, in
// every response mode; all authorizations first, then the logins, then the callbacks in a random
// order with replays; the connection fails while one or more of the answers are written. Every
// answer - in particular the ones AFTER an undelivered one - is judged against its own request.
func genSequence(r drv.Rand, w *emit.Writer) {
	nc := 2 + r.IntN(3)
	var clients []*refstore.Client
	for i := 0; i < nc; i++ {
		c := genClient(r, fmt.Sprintf("c%d", i))
		if r.Chance(3, 4) {
			c.RespTypes = allRT
		}
		clients = append(clients, c)
	}
	reqobj := r.Bool()
	dynamicIssuer = r.Chance(1, 6)
	dyn := dynamicIssuer
	sessionNotFound = genErrKind(r)
	nfTag := sessionNotFound.tag()
	if r.Chance(1, 3) {
		sessionWrap = 1 + r.IntN(6)
	}
	wrapTag := "vwrap=" + wrapNames[sessionWrap]
	s := newSession(reqobj, clients)
	dynamicIssuer = false
	sessionWrap = 0
	sessionNotFound = errKind{}
	var ops []hop
	do := func(h hop) { ops = append(ops, h); s.step(h) }
	modes := []string{"", "query", "fragment", "form_post", "form_post", "form_post"}
	sessMode, oneMode := drv.Pick(r, modes), r.Chance(2, 3)
	nflows := 2 + r.IntN(4)
	first := r.IntN(nc)
	host := func() string {
		if dyn {
			return drv.Pick(r, []string{"a.example.com", "b.example.com"})
		}
		return ""
	}
	cutTags := map[string]bool{}
	cutOf := func(h *hop, p, q int) {
		if r.Chance(p, q) {
			h.cut, h.cutN = genCut(r)
			cutTags["cut="+[]string{"", "early", "late"}[h.cut]] = true
		}
	}
	modeTags := map[string]bool{}
	type prevReq struct {
		ci  int
		uri string
	}
	var prev []prevReq
	dupTag := false
	for fl := 0; fl < nflows; fl++ {
		ci := (first + fl) % nc // neighbouring flows belong to different clients
		c := clients[ci]
		uri, rt := drv.Pick(r, c.Redirects), drv.Pick(r, []string{"code", "code", "id_token token", "id_token"})
		switch r.IntN(12) {
		case 0, 1:
			uri, _ = genURI(r, c)
		case 2: // a URI that ANOTHER client of this provider registered (and may just have used)
			uri = drv.Pick(r, clients[(first+fl+1)%nc].Redirects)
		case 3, 4: // the (client, URI) of an earlier request again, with another response type / mode
			if len(prev) > 0 {
				p := drv.Pick(r, prev)
				ci, uri = p.ci, p.uri
				c = clients[ci]
			}
		case 5: // the URI of an earlier request, by another client
			if len(prev) > 0 {
				uri = drv.Pick(r, prev).uri
			}
		}
		prev = append(prev, prevReq{ci, uri})
		mode := sessMode
		if !oneMode {
			mode = drv.Pick(r, modes)
			if r.Chance(1, 8) {
				mode = drv.Pick(r, histModes)
			}
		}
		modeTags["mode="+mode] = true
		q := areq{client: c.ID, uri: uri, rt: rt, mode: mode, host: host()}
		if r.Chance(1, 8) { // a request that leaves out what its neighbours carry, or fails late
			switch r.IntN(6) {
			case 0:
				q.uri = ""
			case 1:
				q.client = drv.Pick(r, []string{"", "nobody"})
			case 2:
				q.prompt = 2
			case 3:
				q.noscope = true
			case 4:
				q.fault, q.fkind = 2, genErrKind(r)
			default:
				q.rt = ""
			}
		}
		if r.Chance(1, 8) {
			genDups(r, c, clients, &q)
			dupTag = true
		}
		h := hop{kind: 0, router: pickRouter(r), q: q}
		cutOf(&h, 1, 8)
		do(h)
	}
	n := len(s.ids)
	for k := 0; k < n; k++ {
		if !r.Chance(1, 10) {
			do(hop{kind: 1, k: k})
		}
	}
	order := make([]int, n)
	for i := range order {
		order[i] = i
	}
	for i := n - 1; i > 0; i-- {
		j := r.IntN(i + 1)
		order[i], order[j] = order[j], order[i]
	}
	sure := -1 // one callback whose answer is certainly cut (not the last one: something must follow)
	if n > 1 {
		sure = r.IntN(n - 1)
	}
	for i, k := range order {
		h := hop{kind: 2, router: pickRouter(r), k: k, q: areq{host: host()}}
		if i == sure {
			cutOf(&h, 1, 1)
		} else {
			cutOf(&h, 1, 4)
		}
		if r.Chance(1, 8) {
			h.fault, h.fkind = 1+r.IntN(3), genErrKind(r)
		}
		if r.Chance(1, 3) { // the id in a form body, and / or the id of a neighbouring flow next to it
			genPlace(r, &h, n)
		}
		do(h)
		if r.Chance(1, 3) { // replay (a code-flow request stays usable), maybe of an undelivered answer
			h2 := hop{kind: 2, router: pickRouter(r), k: order[r.IntN(i+1)], q: areq{host: host()}}
			cutOf(&h2, 1, 5)
			if r.Chance(1, 3) {
				genPlace(r, &h2, n)
			}
			do(h2)
		}
	}
	tags := []string{"kind=sequence", fmt.Sprintf("clients=%d", nc), fmt.Sprintf("reqobj=%v", reqobj), fmt.Sprintf("dynissuer=%v", dyn), "notfound=" + nfTag, wrapTag}
	for _, m := range []map[string]bool{cutTags, modeTags} {
		var ks []string
		for k := range m {
			ks = append(ks, k)
		}
		sort.Strings(ks)
		tags = append(tags, ks...)
	}
	if dupTag {
		tags = append(tags, "dup=1")
	}
	tags = append(tags, placeTags(ops)...)
	seen := map[string]bool{}
	for _, o := range ops {
		t := "router=" + o.router.String()
		if o.kind != 1 && !seen[t] {
			seen[t] = true
			tags = append(tags, t)
		}
	}
	for _, c := range clients {
		if hasBadGlob(c) && !seen["badglob"] {
			seen["badglob"] = true
			tags = append(tags, "badglob=1")
		}
	}
	s.emit(w, tags)
}

// directedCut: three clients, every response mode, both routers; the answer for the first client is
// cut while it is written, the answers for the others (and a replay for the first) follow.
func directedCut(w *emit.Writer) {
	a := &refstore.Client{ID: "c0", App: op.ApplicationTypeWeb, RespTypes: allRT, Redirects: []string{"https://app.example.com/cb?x=1"}, ATType: op.AccessTokenTypeBearer}
	b := &refstore.Client{ID: "c1", App: op.ApplicationTypeUserAgent, RespTypes: allRT, Redirects: []string{"https://other.example.org/oidc/callback"}, ATType: op.AccessTokenTypeBearer,
		LoginPrefix: "https://login.example.com/l?id="}
	n := &refstore.Client{ID: "c2", App: op.ApplicationTypeNative, RespTypes: allRT, Redirects: []string{"http://127.0.0.1/cb", "myapp://callback"}, ATType: op.AccessTokenTypeBearer}
	for _, router := range []opfix.Router{opfix.Provider, opfix.Legacy} {
		for _, mode := range []string{"", "query", "fragment", "form_post"} {
			for _, rt := range []string{"code", "id_token token"} {
				for _, cut := range [][2]int{{1, 0}, {1, 64}, {2, 10}} {
					ops := []hop{
						{kind: 0, router: router, q: areq{client: "c0", uri: "https://app.example.com/cb?x=1", rt: rt, mode: mode}},
						{kind: 0, router: router, q: areq{client: "c1", uri: "https://other.example.org/oidc/callback", rt: rt, mode: mode}, cut: cut[0], cutN: cut[1]},
						{kind: 0, router: router, q: areq{client: "c2", uri: "http://[::1]:7777/cb", rt: rt, mode: mode}},
						{kind: 1, k: 0}, {kind: 1, k: 1}, {kind: 1, k: 2},
						{kind: 2, router: router, k: 0, cut: cut[0], cutN: cut[1]}, {kind: 2, router: router, k: 1},
						{kind: 2, router: router, k: 2, cut: cut[0], cutN: cut[1]}, {kind: 2, router: router, k: 0}, {kind: 2, router: router, k: 7, cut: cut[0], cutN: cut[1]}}
					runHistory(w, false, []*refstore.Client{a, b, n}, ops, []string{"kind=sequence", "directed=writefault", "router=" + router.String(), "mode=" + mode,
						"cut=" + []string{"", "early", "late"}[cut[0]]})
				}
			}
		}
	}
}

// directedPrivateUse: native clients (dev mode off and on) that registered private-use scheme URIs in
// every shape - scheme:/path (RFC 8252 7.1), scheme:opaque, scheme:///path, scheme://host/path - and
// request exactly those (must be followed through to the callback as the library does today) and near
// misses of them; the same registrations on web / user-agent clients (custom schemes are native-only).
func directedPrivateUse(r drv.Rand, w *emit.Writer) {
	uris := []string{"com.example.app:/oauth2redirect", "app:cb", "app:///cb", "com.example.app://callback", "com.example.app:/cb?x=1", "MyApp:/Cb"}
	for _, app := range []op.ApplicationType{op.ApplicationTypeNative, op.ApplicationTypeWeb, op.ApplicationTypeUserAgent} {
		for _, dev := range []bool{false, true} {
			c := &refstore.Client{ID: "c0", App: app, Dev: dev, RespTypes: allRT, Redirects: uris, ATType: op.AccessTokenTypeBearer}
			for _, u := range uris {
				validateCase(r, w, c, u, "exact", "code", "directed=privateuse")
				for _, near := range []string{u + "x", strings.Replace(u, ":", "://", 1), strings.ToUpper(u[:1]) + u[1:], strings.Replace(u, ":", ":/", 1)} {
					validateCase(r, w, c, near, "privateuse-near", "code", "directed=privateuse")
				}
			}
			if app != op.ApplicationTypeNative && dev {
				continue
			}
			for _, router := range []opfix.Router{opfix.Provider, opfix.Legacy} {
				for _, rt := range []string{"code", "id_token token"} {
					var ops []hop
					for _, u := range uris[:4] {
						ops = append(ops, hop{kind: 0, router: router, q: areq{client: "c0", uri: u, rt: rt, mode: drv.Pick(r, []string{"", "query", "fragment", "form_post"})}})
					}
					for k := 0; k < 4; k++ {
						ops = append(ops, hop{kind: 1, k: k})
					}
					for k := 0; k < 4; k++ {
						ops = append(ops, hop{kind: 2, router: router, k: k})
					}
					runHistory(w, false, []*refstore.Client{c}, ops, []string{"kind=history", "directed=privateuse", "app=" + appNames[app], fmt.Sprintf("dev=%v", dev), "router=" + router.String()})
				}
			}
		}
	}
}

// directedWrap: unregistered URIs, an unknown client and a registered URI with a later error, for every
// way the validation error can reach the error writer: through an AuthorizeValidator on the Provider
// router, and handed directly to AuthRequestError / TryErrorRedirect.
func directedWrap(r drv.Rand, w *emit.Writer) {
	web := &refstore.Client{ID: "c0", App: op.ApplicationTypeWeb, RespTypes: allRT, Redirects: []string{"https://app.example.com/cb"}, ATType: op.AccessTokenTypeBearer}
	glb := &refstore.Client{ID: "c0", App: op.ApplicationTypeWeb, RespTypes: allRT, Redirects: []string{"https://app.example.com/cb"},
		UseGlobs: true, RedirectGlobs: []string{"https://["}, ATType: op.AccessTokenTypeBearer}
	for mode := 1; mode <= 6; mode++ {
		for _, c := range []*refstore.Client{web, glb} {
			for _, rt := range []string{"code", "id_token token"} {
				ops := []hop{
					{kind: 0, router: opfix.Provider, q: areq{client: "c0", uri: "https://evil.example/cb", rt: rt}},
					{kind: 0, router: opfix.Provider, q: areq{client: "c0", uri: "https://app.example.com/cb/", rt: rt, mode: "fragment"}},
					{kind: 0, router: opfix.Provider, q: areq{client: "nobody", uri: "https://evil.example/cb", rt: rt}},
					{kind: 0, router: opfix.Provider, q: areq{client: "c0", uri: "https://app.example.com/cb", rt: rt, noscope: true}},
					{kind: 0, router: opfix.Legacy, q: areq{client: "c0", uri: "https://evil.example/cb", rt: rt}},
					{kind: 0, router: opfix.Provider, q: areq{client: "c0", uri: "https://app.example.com/cb", rt: rt}},
					{kind: 1, k: 0}, {kind: 2, router: opfix.Provider, k: 0}}
				sessionWrap = mode
				runHistory(w, false, []*refstore.Client{c}, ops, []string{"kind=history", "directed=wrap", "vwrap=" + wrapNames[mode]})
				sessionWrap = 0
			}
			for via := 0; via < 2; via++ {
				for _, u := range []string{"https://evil.example/cb", "http://app.example.com/cb", "https://app.example.com/cb", ""} {
					errorWriterCase(r, w, c, u, "foreign", "code", mode, via, "directed=wrap")
				}
			}
		}
	}
}

// directed cases that must stay in every run (former defect F14 and friends)
func directed(r drv.Rand, w *emit.Writer) {
	bad := &refstore.Client{ID: "c0", App: op.ApplicationTypeWeb, RespTypes: allRT, Redirects: []string{"https://app.example.com/cb"},
		UseGlobs: true, RedirectGlobs: []string{"https://["}, ATType: op.AccessTokenTypeBearer}
	for _, router := range []opfix.Router{opfix.Provider, opfix.Legacy} {
		for _, rt := range []string{"code", "id_token token"} {
			q := areq{client: "c0", uri: "https://evil.example/cb", rt: rt}
			runHistory(w, true, []*refstore.Client{bad}, []hop{{kind: 0, router: router, q: q}},
				[]string{"kind=history", "directed=F14", "badglob=1", "router=" + router.String()})
		}
	}
	validateCase(r, w, bad, "https://evil.example/cb", "foreign", "code", "directed=F14")
	bad2 := *bad
	bad2.App = op.ApplicationTypeUserAgent
	bad2.RedirectGlobs = []string{"https://app.example.com/*", "https://app.example.com/[a-"}
	validateCase(r, w, &bad2, "http://evil.example/cb", "foreign", "id_token", "directed=F14")
	// full happy flows on both routers, every response mode
	good := &refstore.Client{ID: "c0", App: op.ApplicationTypeWeb, RespTypes: allRT, Redirects: []string{"https://app.example.com/cb?x=1", "myapp://callback"},
		ATType: op.AccessTokenTypeBearer}
	nat := &refstore.Client{ID: "c1", App: op.ApplicationTypeNative, RespTypes: allRT, Redirects: []string{"http://127.0.0.1/cb", "myapp://callback"},
		ATType: op.AccessTokenTypeBearer, LoginPrefix: "https://login.example.com/l?id="}
	for _, router := range []opfix.Router{opfix.Provider, opfix.Legacy} {
		for _, mode := range []string{"", "query", "fragment", "form_post"} {
			for _, rt := range []string{"code", "id_token token"} {
				ops := []hop{
					{kind: 0, router: router, q: areq{client: "c0", uri: "https://app.example.com/cb?x=1", rt: rt, mode: mode}},
					{kind: 0, router: router, q: areq{client: "c1", uri: "http://[::1]:7777/cb", rt: rt, mode: mode}},
					{kind: 0, router: router, q: areq{client: "c1", uri: "myapp://callback", rt: rt, mode: mode}},
					{kind: 2, router: router, k: 0}, {kind: 1, k: 0}, {kind: 1, k: 1}, {kind: 1, k: 2},
					{kind: 2, router: router, k: 0}, {kind: 2, router: router, k: 1}, {kind: 2, router: router, k: 2}, {kind: 2, router: router, k: 1}}
				runHistory(w, false, []*refstore.Client{good, nat}, ops, []string{"kind=history", "directed=flows", "router=" + router.String(), "mode=" + mode})
			}
		}
	}
}

// directedRO: signed request objects whose redirect_uri equals / differs from the registered
// plain parameter, followed through login and callback so the FINAL target is judged.
func directedRO(w *emit.Writer) {
	web := withKey(&refstore.Client{ID: "c0", App: op.ApplicationTypeWeb, RespTypes: allRT,
		Redirects: []string{"https://app.example.com/cb", "https://app.example.com/cb2"}, ATType: op.AccessTokenTypeBearer})
	for _, router := range []opfix.Router{opfix.Provider, opfix.Legacy} {
		for _, inner := range []string{"https://evil.example/cb", "https://app.example.com/cb2", "https://app.example.com/cb", ""} {
			for _, rt := range []string{"code", "id_token token"} {
				for _, signer := range []string{"client:c0", "attacker"} {
					o := robj{kind: 2, iss: "c0", client: "c0", audOK: true, signer: signer, rt: rt, uri: inner, prompt: -1, scope: "openid"}
					ops := []hop{{kind: 0, router: router, q: areq{client: "c0", uri: "https://app.example.com/cb", rt: rt, ro: o}},
						{kind: 1, k: 0}, {kind: 2, router: router, k: 0}}
					runHistory(w, true, []*refstore.Client{web}, ops, []string{"kind=history", "directed=requestobject", "router=" + router.String()})
				}
			}
		}
	}
}

// directedCallbackID: where the id parameter of the callback travels. Two clients, three requests (the third one is
// never logged in), both routers, every response type / mode: the id in a form body (POST, PUT), in the query of a POST,
// in both with different requests named (body value first in Request.Form), repeated, with an empty or unknown first value.
func directedCallbackID(w *emit.Writer) {
	a := &refstore.Client{ID: "c0", App: op.ApplicationTypeWeb, RespTypes: allRT, Redirects: []string{"https://app.example.com/cb?x=1"}, ATType: op.AccessTokenTypeBearer}
	b := &refstore.Client{ID: "c1", App: op.ApplicationTypeNative, RespTypes: allRT, Redirects: []string{"http://127.0.0.1/cb", "myapp://callback"}, ATType: op.AccessTokenTypeBearer,
		LoginPrefix: "https://login.example.com/l?id="}
	for _, router := range []opfix.Router{opfix.Provider, opfix.Legacy} {
		for _, mode := range []string{"", "fragment", "form_post"} {
			for _, rt := range []string{"code", "id_token token"} {
				ops := []hop{
					{kind: 0, router: router, q: areq{client: "c0", uri: "https://app.example.com/cb?x=1", rt: rt, mode: mode}},
					{kind: 0, router: router, q: areq{client: "c1", uri: "http://[::1]:7777/cb", rt: rt, mode: mode}},
					{kind: 0, router: router, q: areq{client: "c1", uri: "myapp://callback", rt: rt, mode: mode}},
					{kind: 1, k: 0}, {kind: 1, k: 1},
					{kind: 2, router: router, place: 3, k: 2, k2: 0},  // body: the request without login, query: a finished one
					{kind: 2, router: router, place: 3, k: 7, k2: 0},  // body: unknown id
					{kind: 2, router: router, place: 5, k: -1, k2: 0}, // body: empty value, then a finished one
					{kind: 2, router: router, place: 1, k: 0},         // the login UI finishes with a form POST
					{kind: 2, router: router, place: 3, k: 1, k2: 0},  // body and query name different finished requests
					{kind: 2, router: router, place: 4, k: 0, k2: 1},  // repeated in the query
					{kind: 2, router: router, place: 2, k: 1},         // POST, id in the query
					{kind: 2, router: router, place: 1, k: 1, method: http.MethodPut},
					{kind: 2, router: router, place: 1, k: -1},
					{kind: 2, router: router, k: 0}}
				runHistory(w, false, []*refstore.Client{a, b}, ops, append([]string{"kind=history", "directed=callbackid", "router=" + router.String(), "mode=" + mode}, placeTags(ops)...))
			}
		}
	}
}

func main() {
	cfg := drv.Parse()
	r := drv.NewRand(cfg.Seed)
	shard := 0 // quick: spread over 16 coqc processes
	if !cfg.Quick {
		shard = 250 // bounds coqc memory (about 2.5 MB per case)
	}
	w := emit.NewWriter(cfg.Out, "C03_spec", shard, cfg.Only)
	directed(r, w)
	directedRO(w)
	directedCut(w)
	directedDup(w)
	directedPrivateUse(r, w)
	directedWrap(r, w)
	directedCallbackID(w)
	nv := cfg.Count(900, 14000)
	nh := cfg.Count(700, 10000)
	ns := cfg.Count(200, 3000)
	// the three kinds interleaved in fixed proportion, so that every shard gets the same mix (the
	// history and sequence cases are the expensive ones for coqc)
	for i := 0; i < nv; i++ {
		c := genClient(r, "c0")
		u, kind := genURI(r, c)
		if i%4 == 3 {
			errorWriterCase(r, w, c, u, kind, genRT(r), 1+r.IntN(6), r.IntN(2))
		} else {
			validateCase(r, w, c, u, kind, genRT(r))
		}
		for j := i * nh / nv; j < (i+1)*nh/nv; j++ {
			genHistory(r, w)
		}
		for j := i * ns / nv; j < (i+1)*ns/nv; j++ {
			genSequence(r, w)
		}
	}
	err := w.Close(emit.Meta{Property: "C03", Tier: cfg.Tier, Seed: cfg.Seed, Extra: map[string]any{"loopback_classifier_disagreements": loopDisagree},
		Rule: "loopback ground truth: every URI of a case is classified by the harness itself (http/https and host exactly localhost or an IP literal in 127.0.0.0/8 or ::1) next to the library's HTTPLoopbackOrLocalhost; the predicate uses the former, the model the latter; requested URIs include registered loopback URIs under ~50 near-miss hosts (prefix/suffix/label/case/trailing dot/number forms/neighbouring addresses) with and without port and userinfo. validate: random registration (app type x dev x response types x 1-3 registered URIs x optional globs incl. malformed) x requested URI = registered one, mutated (suffix/prefix/userinfo/host case/port/loopback swaps/scheme/custom/glob metacharacters/foreign/empty/unparseable) or glob instance, x response_type; history: 1-2 flows Authorize->Login->Callback over HTTP on random routers with 0-1 error-provoking parameter (before or after URI validation), really signed request objects (client key registered in the storage; redirect_uri / response_type / response_mode / prompt / scope inside equal to or different from the plain parameters; wrong key, kid, iss, aud, client_id), storage faults returning plain / typed / redirect-disabled errors, dynamic issuer with several hosts, skipped login, replayed/unknown callbacks, the callback's id parameter in the URL query, in a form body (POST/PUT/PATCH), in both naming different requests, repeated, with an empty or unknown first value (one callback in three), all response modes; sequence: 2-4 clients on one provider instance, 2-5 flows of neighbouring different clients mostly on the success path in one response mode per session (or mixed), all authorizations, then logins, then the callbacks in random order with replays, one or more answers written under a write fault (ResponseWriter.Write failing after 0-100 bytes, or behind the first form tag), each answer judged by the Location / FIRST form action the user agent would follow; plus directed F14, happy-flow and write-fault cases. non-trivial = model path class != 0 (validate: non-empty URI; history: at least one answer that is not an error page); distinct = distinct Coq input terms",
	})
	if err != nil {
		fmt.Fprintln(os.Stderr, err)
		os.Exit(2)
	}
}
