// Round 11: the model widened.
//
// kind=cookieopts (Coq input InpCk): the RP's CookieHandler is built with
// httphelper.WithUnsecure / WithSameSite / WithMaxAge / WithDomain / WithPath in random
// lists; the driver's browser honours the attributes of every Set-Cookie (domain, path,
// Secure, Max-Age; keyed by name+domain+path) - the same rules as C17_Cookie.v - and time
// passes between the requests (the cookies' securecookie timestamps are moved back and
// re-MACed with the key that minted them, so the real Decode sees their age).
//
// kind=tail (Coq input InpTail): one callback and what the provider answers: ID tokens
// with chosen exp / iat / auth_time against rp.WithVerifierOpts(WithIssuedAtOffset /
// WithIssuedAtMaxAge / WithAuthTimeMaxAge ...), and the application callback wrapped in
// rp.UserinfoCallback against userinfo answers with the same / another / no subject,
// error statuses and malformed bodies.
package main

import (
	"bytes"
	"crypto/hmac"
	"crypto/sha256"
	"encoding/base64"
	"encoding/json"
	"fmt"
	"net/http"
	"net/http/httptest"
	"net/url"
	"os"
	"sort"
	"strconv"
	"strings"
	"time"

	"verifharness/drv"
	"verifharness/emit"

	"github.com/zitadel/oidc/v3/pkg/client/rp"
	httphelper "github.com/zitadel/oidc/v3/pkg/http"
)

const extRule = "ROUND 11: kind=cookieopts - the RP's CookieHandler(s) built with a random list (0-6, kinds repeated: the last one counts) of WithUnsecure / WithSameSite(unset, default, lax, strict, none) / WithMaxAge(-1, 0, 5, 30, 300, 3600) / WithDomain(none, the host, a parent, with leading dot, a sibling, foreign) / WithPath(/, /auth, /auth/, /auth/callback, empty, relative); a browser that files cookies under name+domain+path and sends them by domain / path / Secure / Max-Age (1 in 4: a client that keeps cookies beyond Max-Age); logins and callbacks on https / http, hosts rp.example / sub-domains / look-alikes, paths inside and outside the cookie path; waits of 0 s up to beyond the handler's max age and beyond securecookie's 30 days (never within 3 s of a limit); Set-Cookies of other parties (other keys, other path / domain, deletions that do or do not address the RP's cookie); every Set-Cookie is compared with its attributes. kind=tail - one callback after a real login: verifier options WithIssuedAtOffset / WithIssuedAtMaxAge / WithAuthTimeMaxAge (0-4, repeated kinds, zero and negative durations) via rp.WithVerifierOpts, ID tokens with exp / iat / auth_time inside and outside every limit or missing, token answers without id_token or refusing; 2 of 3 OIDC cases wrap the application callback in rp.UserinfoCallback against a userinfo endpoint answering the ID token's subject / a near miss of it (case, space, prefix) / another / none / a non-string sub / 401 / 500 / not JSON / null, token types Bearer / bearer / MAC / empty, access tokens with separators; some callbacks with a wrong or missing state (no userinfo request may be made)."

// ---------- CookieHandler options ----------

type chOpt struct {
	kind string // unsecure | samesite | maxage | domain | path
	ss   http.SameSite
	n    int
	s    string
}

func goChOpts(l []chOpt) []httphelper.CookieHandlerOpt {
	var out []httphelper.CookieHandlerOpt
	for _, o := range l {
		switch o.kind {
		case "unsecure":
			out = append(out, httphelper.WithUnsecure())
		case "samesite":
			out = append(out, httphelper.WithSameSite(o.ss))
		case "maxage":
			out = append(out, httphelper.WithMaxAge(o.n))
		case "domain":
			out = append(out, httphelper.WithDomain(o.s))
		case "path":
			out = append(out, httphelper.WithPath(o.s))
		}
	}
	return out
}

func ssCoq(m http.SameSite) string {
	switch m {
	case http.SameSiteDefaultMode:
		return "SSDefault"
	case http.SameSiteLaxMode:
		return "SSLax"
	case http.SameSiteStrictMode:
		return "SSStrict"
	case http.SameSiteNoneMode:
		return "SSNone"
	case 0:
		return "SSUnset"
	}
	return fmt.Sprintf("(SSOther %d)", int(m)) // not a term of the model: shows as a Coq error
}

func (o chOpt) coq() string {
	switch o.kind {
	case "unsecure":
		return "WithUnsecure"
	case "samesite":
		return emit.Ctor("WithSameSite", ssCoq(o.ss))
	case "maxage":
		return emit.Ctor("WithMaxAge", emit.Z(int64(o.n)))
	case "domain":
		return emit.Ctor("WithDomain", emit.Str(o.s))
	}
	return emit.Ctor("WithPath", emit.Str(o.s))
}

// parentDomain: "login.rp.example" -> "rp.example"; "example" -> "example"
func parentDomain(h string) string {
	if _, rest, ok := strings.Cut(h, "."); ok {
		return rest
	}
	return h
}

// genChOpts: the options; Domain values are mostly ones the host belongs to
func genChOpts(r drv.Rand, host string) []chOpt {
	var l []chOpt
	n := drv.Pick(r, []int{0, 1, 1, 1, 2, 2, 2, 3, 3, 4, 5, 6})
	for i := 0; i < n; i++ {
		switch r.IntN(9) {
		case 0:
			l = append(l, chOpt{kind: "unsecure"})
		case 1:
			l = append(l, chOpt{kind: "samesite", ss: drv.Pick(r, []http.SameSite{0, http.SameSiteDefaultMode, http.SameSiteLaxMode, http.SameSiteStrictMode, http.SameSiteNoneMode})})
		case 2, 3, 4:
			l = append(l, chOpt{kind: "maxage", n: drv.Pick(r, []int{-1, 0, 0, 5, 30, 30, 300, 300, 300, 3600, 3600})})
		case 5, 6:
			l = append(l, chOpt{kind: "domain", s: drv.Pick(r, []string{"", "", host, host, host, "." + host, parentDomain(host), parentDomain(host), parentDomain(host), "." + parentDomain(host),
				"login." + host, "other." + parentDomain(host), "other.example"})})
		default:
			l = append(l, chOpt{kind: "path", s: drv.Pick(r, []string{"/", "/", "/auth", "/auth", "/auth", "/auth/", "/auth/callback", "", "auth"})})
		}
	}
	return l
}

// the handler's max ages as the options amount to (used only to SHAPE the waits: no wait
// within 3 s of a limit, because the library reads the real clock)
func macAgeOf(l []chOpt) int64 {
	a := int64(86400 * 30)
	for _, o := range l {
		if o.kind == "maxage" {
			a = int64(o.n)
		}
	}
	return a
}

// ---------- the browser (the same rules as C17_Cookie.v) ----------

type attrs struct {
	domain, path string
	maxAge       int64
	httpOnly     bool
	secure       bool
	sameSite     http.SameSite
}

func (a attrs) coq() string {
	return emit.Ctor("Attrs", emit.Str(a.domain), emit.Str(a.path), emit.Z(a.maxAge), emit.Bool(a.httpOnly), emit.Bool(a.secure), ssCoq(a.sameSite))
}

type setck struct {
	name  string
	empty bool // Value ""
	e     entry
	a     attrs
}

func (s setck) coq() string {
	v := emit.None
	if !s.empty {
		v = emit.Some(s.e.sym.coq())
	}
	return emit.Pair(emit.Pair(emit.Str(s.name), v), s.a.coq())
}

type breq struct {
	https      bool
	host, path string
}

func (q breq) coq() string { return emit.Ctor("Req", emit.Bool(q.https), emit.Str(q.host), emit.Str(q.path)) }
func (q breq) url() string {
	if q.https {
		return "https://" + q.host + q.path
	}
	return "http://" + q.host + q.path
}

type bentry struct {
	e        entry
	hostOnly bool
	dom      string
	path     string
	secure   bool
	maxAge   int64
	age      int64
}

func domainMatch(host, d string) bool { return host == d || strings.HasSuffix(host, "."+d) }

func pathMatch(cp, rp string) bool {
	if !strings.HasPrefix(rp, cp) {
		return false
	}
	if len(rp) == len(cp) {
		return true
	}
	return strings.HasSuffix(cp, "/") || rp[len(cp)] == '/'
}

func defaultPath(rp string) string {
	if !strings.HasPrefix(rp, "/") {
		return "/"
	}
	i := strings.LastIndex(rp, "/")
	if i <= 0 {
		return "/"
	}
	return rp[:i]
}

func effPath(a attrs, q breq) string {
	if strings.HasPrefix(a.path, "/") {
		return a.path
	}
	return defaultPath(q.path)
}

func bjStore(q breq, j []bentry, s setck) []bentry {
	ho := s.a.domain == ""
	d := s.a.domain
	if ho {
		d = q.host
	} else if !domainMatch(q.host, s.a.domain) {
		return j
	}
	p := effPath(s.a, q)
	var out []bentry
	for _, b := range j {
		if !(b.e.name == s.name && b.hostOnly == ho && b.dom == d && b.path == p) {
			out = append(out, b)
		}
	}
	if s.a.maxAge < 0 {
		return out
	}
	e := s.e
	if s.empty {
		e = entry{name: s.name, raw: "", sym: cval{label: ""}}
	}
	return append(out, bentry{e: e, hostOnly: ho, dom: d, path: p, secure: s.a.secure, maxAge: s.a.maxAge})
}

func bjSent(keeps bool, q breq, j []bentry) []bentry {
	var out []bentry
	for _, b := range j {
		live := keeps || b.maxAge == 0 || b.age < b.maxAge
		dm := domainMatch(q.host, b.dom)
		if b.hostOnly {
			dm = q.host == b.dom
		}
		if live && dm && pathMatch(b.path, q.path) && (!b.secure || q.https) {
			out = append(out, b)
		}
	}
	return out
}

// redate moves the securecookie timestamp of a cookie value dt seconds into the past and
// recomputes its MAC ("date|value|mac", MAC over "name|date|value") with the hash key that
// minted it; with dt = 0 it must reproduce the input (self-test below).
func redate(raw, name string, hashKey []byte, dt int64) (string, bool) {
	b, err := base64.URLEncoding.DecodeString(raw)
	if err != nil {
		return raw, false
	}
	parts := bytes.SplitN(b, []byte("|"), 3)
	if len(parts) != 3 {
		return raw, false
	}
	t, err := strconv.ParseInt(string(parts[0]), 10, 64)
	if err != nil {
		return raw, false
	}
	nb := []byte(fmt.Sprintf("%s|%d|%s|", name, t-dt, parts[1]))
	m := hmac.New(sha256.New, hashKey)
	m.Write(nb[:len(nb)-1])
	nb = append(nb, m.Sum(nil)...)[len(name)+1:]
	return base64.URLEncoding.EncodeToString(nb), true
}

// ---------- kind=cookieopts ----------

type kop struct {
	kind  string // login | callback | wait | put
	state string
	q     [][2]string
	tokOK bool
	req   breq
	dt    int64
	put   func(j []bentry) setck // resolved while running
}

func (p *party) readSetCookies(res *http.Response) ([]setck, string) {
	var cs []setck
	var items []string
	for _, c := range res.Cookies() {
		s := setck{name: c.Name, empty: c.Value == "",
			a: attrs{domain: c.Domain, path: c.Path, maxAge: int64(c.MaxAge), httpOnly: c.HttpOnly, secure: c.Secure, sameSite: c.SameSite}}
		if !s.empty {
			s.e = entry{name: c.Name, raw: c.Value, sym: p.w.classify(c.Name, c.Value)}
		}
		cs = append(cs, s)
		items = append(items, s.coq())
	}
	return cs, emit.List(items)
}

func attachB(req *http.Request, bs []bentry) {
	for _, b := range bs {
		req.AddCookie(&http.Cookie{Name: b.e.name, Value: b.e.raw})
	}
}

type ckResult struct {
	ops, evs []string
	htab     map[string]string
	human    []map[string]any
	panicked bool
	undated  int
}

func (p *party) runCk(keeps bool, ops []kop) ckResult {
	res := ckResult{htab: map[string]string{}}
	var j []bentry
	one := func(tokOK bool, f func()) (called []string, reqs []tokreq) {
		p.called, p.rt.reqs, p.rt.ok, p.rt.dropID = nil, nil, tokOK, false
		f()
		return p.called, p.rt.reqs
	}
	if pn := drv.Catch(func() {
		for _, o := range ops {
			switch o.kind {
			case "login":
				p.states = []string{o.state}
				req := httptest.NewRequest("GET", o.req.url(), nil)
				attachB(req, bjSent(keeps, o.req, j))
				rec := httptest.NewRecorder()
				called, _ := one(true, func() { p.login.ServeHTTP(rec, req) })
				hr := rec.Result()
				cs, csCoq := p.readSetCookies(hr)
				verifier := ""
				for _, c := range cs {
					if !c.empty && c.name == "pkce" && c.e.sym.mac {
						verifier = c.e.sym.value
						res.htab[verifier] = s256(verifier)
					}
				}
				loc := hr.Header.Get("Location")
				ev := "KEvOther"
				if hr.StatusCode == http.StatusFound && len(called) == 0 && loc != "" {
					base, rawq, _ := strings.Cut(loc, "?")
					ev = emit.Ctor("KEvAuth", csCoq, emit.Str(base), pairs(sortedParams(rawq)))
				} else if len(cs) > 0 {
					ev = emit.Ctor("KEvAuth", csCoq, emit.Str("<no-redirect>"), "[]")
				}
				res.ops = append(res.ops, emit.Ctor("KLogin", emit.Str(o.state), emit.Str(verifier), o.req.coq()))
				res.evs = append(res.evs, ev)
				res.human = append(res.human, map[string]any{"op": "login", "url": o.req.url(), "state": o.state, "set_cookie": hr.Header.Values("Set-Cookie")})
				for _, c := range cs {
					j = bjStore(o.req, j, c)
				}
			case "callback":
				req := httptest.NewRequest("GET", o.req.url()+"?"+encodeQuery(o.q), nil)
				carried := bjSent(keeps, o.req, j)
				attachB(req, carried)
				rec := httptest.NewRecorder()
				called, treqs := one(o.tokOK, func() { p.cb.ServeHTTP(rec, req) })
				hr := rec.Result()
				cs, csCoq := p.readSetCookies(hr)
				h := "HOther"
				if len(called) == 1 {
					h = called[0]
				}
				var reqs []string
				for _, t := range treqs {
					reqs = append(reqs, t.coq())
					if t.verifier != nil {
						res.htab[*t.verifier] = s256(*t.verifier)
					}
				}
				res.ops = append(res.ops, emit.Ctor("KCallback", pairs(o.q), emit.Bool(o.tokOK), o.req.coq()))
				res.evs = append(res.evs, emit.Ctor("KEvCb", h, emit.List(reqs), csCoq))
				var names []string
				for _, b := range carried {
					names = append(names, fmt.Sprintf("%s(age %d)", b.e.name, b.age))
				}
				res.human = append(res.human, map[string]any{"op": "callback", "url": o.req.url(), "query": clipQ(o.q), "carried": names, "handlers": len(called), "token_requests": len(treqs), "set_cookie": hr.Header.Values("Set-Cookie")})
				for _, c := range cs {
					j = bjStore(o.req, j, c)
				}
			case "wait":
				for i := range j {
					j[i].age += o.dt
					if j[i].e.sym.mac {
						raw, ok := redate(j[i].e.raw, j[i].e.sym.name, p.w.keys[j[i].e.sym.k][0], o.dt)
						if !ok {
							res.undated++
						}
						j[i].e.raw = raw
					}
				}
				res.ops = append(res.ops, emit.Ctor("KWait", emit.Z(o.dt)))
				res.evs = append(res.evs, "KEvNone")
				res.human = append(res.human, map[string]any{"op": "wait", "seconds": o.dt})
			case "put":
				s := o.put(j)
				res.ops = append(res.ops, emit.Ctor("KPut", o.req.coq(), s.coq()))
				res.evs = append(res.evs, "KEvNone")
				res.human = append(res.human, map[string]any{"op": "put", "url": o.req.url(), "cookie": s.name, "attrs": fmt.Sprintf("%+v", s.a)})
				j = bjStore(o.req, j, s)
			}
		}
	}); pn != "" {
		res.panicked = true
	}
	return res
}

var ckHosts = []string{"rp.example", "rp.example", "rp.example", "rp.example", "rp.example", "login.rp.example", "login.rp.example", "login.rp.example", "app.rp.example", "rp.example.evil.test", "xrp.example", "example"}
var ckLoginPaths = []string{"/login", "/login", "/auth/login", "/auth/login", "/auth/login", "/auth/x/login", "/"}
var ckCbPaths = []string{"/auth/callback", "/auth/callback", "/auth/callback", "/auth/callback", "/auth/callback", "/auth/callback", "/auth/callback", "/auth/callback", "/auth/callback", "/callback", "/auth/x/cb", "/authx/callback", "/auth", "/auth/"}

// waits that are never within 3 s of a limit (the handler's max age, the cookies'
// Max-Age = the same number, securecookie's default of 30 days)
func pickWait(r drv.Rand, macAge int64) int64 {
	if r.Chance(3, 5) { // mostly: the user comes back at once
		return drv.Pick(r, []int64{0, 0, 1, 2})
	}
	month := int64(86400 * 30)
	c := []int64{60, 600}
	if macAge > 0 && macAge != month {
		c = []int64{macAge + 1, macAge + 5, 2 * macAge, macAge / 2, macAge + 1}
		if macAge > 8 {
			c = append(c, macAge-4, macAge-4)
		}
	}
	if r.Chance(1, 4) {
		c = []int64{month + 1, month + 5, 2 * month, month - 4, month / 2}
	}
	for i := 0; i < 20; i++ {
		w := drv.Pick(r, c)
		ok := true
		for _, a := range []int64{macAge, month} {
			if a > 0 && w > a-3 && w <= a {
				ok = false
			}
		}
		if ok {
			return w
		}
	}
	return 0
}

func genCkCase(r drv.Rand, wd *world, co []chOpt, host string) (keeps bool, ops []kop, tags []string) {
	keeps = r.Chance(1, 4)
	mac := macAgeOf(co)
	https := r.Chance(11, 12)
	for _, o := range co {
		if o.kind == "unsecure" && r.Bool() {
			https = false
		}
	}
	reqFor := func(paths []string) breq {
		q := breq{https: https, host: host, path: drv.Pick(r, paths)}
		if r.Chance(1, 14) {
			q.host = drv.Pick(r, ckHosts)
		}
		if r.Chance(1, 20) {
			q.https = !q.https
		}
		return q
	}
	cbq := func(s string) [][2]string {
		if r.Chance(1, 10) {
			s = nearMiss(r, s)
		}
		return [][2]string{{"code", "code-1"}, {"state", s}}
	}
	// what another party answers to a request of this browser
	put := func() kop {
		q := reqFor(append(append([]string{}, ckCbPaths...), ckLoginPaths...))
		kind := r.IntN(7)
		fk := wd.foreign(r)
		name := drv.Pick(r, []string{"state", "state", "pkce", "session"})
		a := attrs{domain: drv.Pick(r, []string{"", "", parentDomain(host), "example", host}), path: drv.Pick(r, []string{"/", "/", "/auth", "/auth/callback", "", "/other"}),
			maxAge: drv.Pick(r, []int64{0, 0, 300, 3600}), httpOnly: r.Bool(), secure: r.Bool(), sameSite: drv.Pick(r, []http.SameSite{0, http.SameSiteLaxMode, http.SameSiteNoneMode})}
		return kop{kind: "put", req: q, put: func(j []bentry) setck {
			switch kind {
			case 0, 1: // a cookie minted under other keys (a sibling application, cookie tossing)
				return setck{name: name, e: wd.mint(fk, name, drv.Pick(r, statePool[1:4])), a: a}
			case 2: // junk
				return setck{name: name, e: tamper(r, entry{name: name, sym: cval{label: "none"}}, 2), a: a}
			case 3, 4: // a deletion that addresses exactly an existing cookie
				if len(j) > 0 {
					b := drv.Pick(r, j)
					d := b.dom
					if b.hostOnly {
						d = ""
					}
					return setck{name: b.e.name, empty: true, a: attrs{domain: d, path: b.path, maxAge: -1, httpOnly: true, secure: b.secure}}
				}
			case 5: // a deletion with another path / domain
				a.maxAge = -1
				return setck{name: name, empty: true, a: a}
			}
			// an old cookie of the jar again, under other attributes
			if len(j) > 0 {
				if b := drv.Pick(r, j); b.e.sym.mac { // minted afresh: the new entry's age is 0
					return setck{name: b.e.name, e: wd.mint(b.e.sym.k, b.e.sym.name, b.e.sym.value), a: a}
				}
			}
			return setck{name: name, e: tamper(r, entry{name: name, sym: cval{label: "none"}}, 2), a: a}
		}}
	}
	variant := r.IntN(8)
	tags = append(tags, fmt.Sprintf("ckvariant=%d", variant), fmt.Sprintf("keeps=%v", keeps))
	st := drv.Pick(r, []string{"st-1", "st-2", "st-3", "a b&c=d", "x", "Kst-sk"})
	login := kop{kind: "login", state: st, req: reqFor(ckLoginPaths)}
	cb := func(s string) kop {
		return kop{kind: "callback", q: cbq(s), tokOK: r.Chance(5, 6), req: reqFor(ckCbPaths)}
	}
	wait := func() kop { return kop{kind: "wait", dt: pickWait(r, mac)} }
	switch variant {
	case 0, 1, 2: // the round trip: login, time, callback, the same callback again
		ops = []kop{login, wait(), cb(st)}
		if r.Bool() {
			ops = append(ops, cb(st))
		}
	case 3: // two logins, waits, both callbacks
		st2 := "st-9"
		ops = []kop{login, wait(), {kind: "login", state: st2, req: reqFor(ckLoginPaths)}, wait(), cb(st2), cb(st)}
	case 4: // somebody else's Set-Cookie between login and callback
		ops = []kop{login, put(), wait(), cb(st), put(), cb(st)}
	case 5: // ... before the login
		ops = []kop{put(), login, put(), cb(st)}
	default: // random
		ops = []kop{login}
		m := 3 + r.IntN(5)
		for len(ops) < m {
			switch r.IntN(7) {
			case 0:
				st = drv.Pick(r, []string{"st-1", "st-2", "st-3"})
				ops = append(ops, kop{kind: "login", state: st, req: reqFor(ckLoginPaths)})
			case 1, 2, 3:
				ops = append(ops, cb(st))
			case 4, 5:
				ops = append(ops, wait())
			default:
				ops = append(ops, put())
			}
		}
	}
	return keeps, ops, tags
}

// ---------- kind=tail ----------

type vOpt struct {
	kind string // offset | iat | auth
	d    int64  // seconds
}

func goVOpts(l []vOpt) []rp.VerifierOption {
	out := []rp.VerifierOption{}
	for _, o := range l {
		d := time.Duration(o.d) * time.Second
		switch o.kind {
		case "offset":
			out = append(out, rp.WithIssuedAtOffset(d))
		case "iat":
			out = append(out, rp.WithIssuedAtMaxAge(d))
		default:
			out = append(out, rp.WithAuthTimeMaxAge(d))
		}
	}
	return out
}

func (o vOpt) coq() string {
	switch o.kind {
	case "offset":
		return emit.Ctor("WithIssuedAtOffset", emit.Z(o.d))
	case "iat":
		return emit.Ctor("WithIssuedAtMaxAge", emit.Z(o.d))
	}
	return emit.Ctor("WithAuthTimeMaxAge", emit.Z(o.d))
}

type tailSpec struct {
	access, ttype string
	noID          bool
	sub           string
	expIn         int64
	iatAge        *int64
	authAge       *int64
	uiStatus      int
	uiBody        string
	// the userinfo answer as the model sees it
	uiOK  bool
	uiSub string
}

func optZ(p *int64) string {
	if p == nil {
		return emit.None
	}
	return emit.Some(emit.Z(*p))
}

// thresholds the library compares ages with (used only to SHAPE the ages: never within 3 s)
func vThresholds(l []vOpt) (off, mi, ma int64) {
	off = 1
	for _, o := range l {
		switch o.kind {
		case "offset":
			off = o.d
		case "iat":
			mi = o.d
		default:
			ma = o.d
		}
	}
	return
}

func awayFrom(r drv.Rand, cands []int64, limits ...int64) int64 {
	for i := 0; i < 40; i++ {
		v := drv.Pick(r, cands)
		ok := true
		for _, l := range limits {
			if v > l-3 && v < l+3 {
				ok = false
			}
		}
		if ok {
			return v
		}
	}
	return 1000000
}

func genTail(r drv.Rand, oidcRP bool, wrap bool) (vo []vOpt, t *tailSpec, tags []string) {
	n := drv.Pick(r, []int{0, 1, 1, 2, 2, 3, 4})
	for i := 0; i < n; i++ {
		switch r.IntN(5) {
		case 0:
			vo = append(vo, vOpt{"offset", drv.Pick(r, []int64{0, 1, 5, 60, -5})})
		case 1, 2:
			vo = append(vo, vOpt{"iat", drv.Pick(r, []int64{0, 30, 30, 300, 300, -10})})
		default:
			vo = append(vo, vOpt{"auth", drv.Pick(r, []int64{0, 60, 60, 600, 600})})
		}
	}
	// 11 of 20: a token every check accepts (when the options allow one at all); 5 of 20:
	// such a token with exactly ONE fault (the option that makes it a fault is appended
	// when missing); 4 of 20: every claim drawn independently
	mode := r.IntN(20)
	valid := mode < 16
	fault := ""
	if mode >= 11 && mode < 16 && oidcRP {
		fault = drv.Pick(r, []string{"iat-old", "iat-old", "auth-old", "auth-old", "auth-missing", "iat-missing", "expired", "iat-future", "no-id-token"})
		_, mi0, ma0 := vThresholds(vo)
		if fault == "iat-old" && mi0 <= 0 {
			vo = append(vo, vOpt{"iat", drv.Pick(r, []int64{30, 300})})
		}
		if (fault == "auth-old" || fault == "auth-missing") && ma0 <= 0 {
			vo = append(vo, vOpt{"auth", drv.Pick(r, []int64{60, 600})})
		}
		tags = append(tags, "fault="+fault)
	}
	off, mi, ma := vThresholds(vo)
	t = &tailSpec{access: drv.Pick(r, []string{"at", "at", "at-2", "a b+c/d=", "ey.J.x"}), ttype: drv.Pick(r, []string{"Bearer", "Bearer", "Bearer", "bearer", "MAC", ""}),
		sub: drv.Pick(r, []string{"user-1", "user-1", "user-1", "User-1", "user-1 ", "u\u00e9", "0"}), noID: oidcRP && ((!valid && r.Chance(1, 8)) || fault == "no-id-token")}
	filter := func(c []int64, ok func(int64) bool) []int64 {
		if !valid {
			return c
		}
		var out []int64
		for _, v := range c {
			if ok(v) {
				out = append(out, v)
			}
		}
		if len(out) == 0 {
			return c
		}
		return out
	}
	t.expIn = awayFrom(r, filter([]int64{3600, 3600, 3600, 300, 30, -30, off + 10, off - 10}, func(v int64) bool { return v > off }), off)
	iatC := []int64{0, 0, 10, 10, 100, 1000, -off + 10, -off - 10}
	if mi != 0 {
		iatC = append(iatC, mi-10, mi-10, mi+10, mi+10, mi/2)
	}
	ia := awayFrom(r, filter(iatC, func(v int64) bool { return v >= -off && (mi == 0 || v <= mi) }), -off, mi)
	t.iatAge = &ia
	if !valid && r.Chance(1, 8) {
		t.iatAge = nil
	}
	authC := []int64{0, 10, 10, 100, 1000}
	if ma != 0 {
		authC = append(authC, ma-10, ma-10, ma+10, ma+10)
	}
	aa := awayFrom(r, filter(authC, func(v int64) bool { return ma == 0 || v <= ma }), ma)
	t.authAge = &aa
	if (!valid || ma == 0) && r.Chance(1, 5) {
		t.authAge = nil
	}
	switch fault {
	case "iat-old":
		ia = mi + drv.Pick(r, []int64{5, 10, 100, 100000})
	case "iat-future":
		ia = -off - drv.Pick(r, []int64{5, 10, 100})
	case "iat-missing":
		t.iatAge = nil
	case "auth-old":
		aa = ma + drv.Pick(r, []int64{5, 10, 100, 100000})
		t.authAge = &aa
	case "auth-missing":
		t.authAge = nil
	case "expired":
		t.expIn = off - drv.Pick(r, []int64{5, 10, 100})
	}
	// the userinfo endpoint
	t.uiStatus, t.uiOK = 200, true
	switch x := r.IntN(20); {
	case x < 10:
		t.uiSub = t.sub
		t.uiBody = `{"sub":` + jsonStr(t.uiSub) + `,"name":"User One"}`
		tags = append(tags, "uisub=same")
	case x < 13: // near misses of the ID token's subject
		rs := []rune(t.sub)
		t.uiSub = drv.Pick(r, []string{strings.ToUpper(t.sub), strings.ToLower(t.sub), t.sub + " ", " " + t.sub, t.sub + "x", string(rs[:len(rs)-1]), strings.TrimSpace(t.sub), t.sub + "\u0000"})
		if t.uiSub == t.sub {
			t.uiSub = t.sub + "-2"
		}
		t.uiBody = `{"sub":` + jsonStr(t.uiSub) + `}`
		tags = append(tags, "uisub=nearmiss")
	case x < 15:
		t.uiSub = drv.Pick(r, []string{"user-2", "admin", "null"})
		t.uiBody = `{"name":"Somebody Else","sub":` + jsonStr(t.uiSub) + `}`
		tags = append(tags, "uisub=other")
	case x < 16:
		t.uiSub, t.uiBody = "", drv.Pick(r, []string{`{}`, `{"name":"No Subject"}`, `{"sub":""}`, `{"sub":null}`})
		tags = append(tags, "uisub=none")
	case x < 17:
		t.uiOK, t.uiBody = false, drv.Pick(r, []string{`{"sub":123}`, `{"sub":["user-1"]}`, `{"sub":{"id":"user-1"}}`, `{"sub":true}`})
		tags = append(tags, "uisub=nonstring")
	case x < 19:
		t.uiOK, t.uiStatus = false, drv.Pick(r, []int{401, 403, 500})
		t.uiBody = drv.Pick(r, []string{`{"error":"invalid_token"}`, `{"sub":` + jsonStr(t.sub) + `}`, `oops`})
		tags = append(tags, "uisub=status")
	default:
		t.uiOK, t.uiBody = false, drv.Pick(r, []string{`not json`, `null`, `[]`, `"user-1"`, ``, `{"sub":` + jsonStr(t.sub)})
		tags = append(tags, "uisub=malformed")
	}
	tags = append(tags, fmt.Sprintf("wrap=%v", wrap), fmt.Sprintf("vopts=%d", len(vo)))
	return vo, t, tags
}

func jsonStr(s string) string {
	b, _ := json.Marshal(s)
	return string(b)
}

func (t *tailSpec) coq(tokOK, oidcRP bool) (tr, ui string) {
	id := emit.None
	if oidcRP && !t.noID {
		id = emit.Some(emit.Ctor("IdTok", emit.Str(t.sub), emit.Z(t.expIn), optZ(t.iatAge), optZ(t.authAge)))
	}
	tr = emit.Ctor("TokResp", emit.Bool(tokOK), emit.Str(t.access), emit.Str(t.ttype), id)
	ui = emit.Ctor("UiResp", emit.Bool(t.uiOK), emit.Str(t.uiSub))
	return
}

// ---------- the extra cases ----------

func runExtCases(cfg drv.Config, r drv.Rand, w *emit.Writer, pemKey []byte, opk opKeys) map[string]any {
	stats := map[string]any{}
	// self-test of redate: dt = 0 reproduces the value the library minted
	{
		wd := newWorld(r)
		e := wd.mint(0, "state", "self-test")
		if got, ok := redate(e.raw, "state", wd.keys[0][0], 0); !ok || got != e.raw {
			fmt.Fprintln(os.Stderr, "c17: redate self-test failed (securecookie format changed?)")
			os.Exit(2)
		}
	}
	probe := os.Getenv("C17_PROBE_OAUTH_USERINFO") != "" // manual probe only: UserinfoCallback on an OAuth2-only RP
	nCk, nTail := cfg.Count(96, 1500), cfg.Count(96, 1500)
	undated, dropped := 0, 0
	for i := 0; i < nCk; i++ {
		wd := newWorld(r)
		c, _ := genConfig(r, wd, i)
		ctags := finishConfig(r, wd, &c, i)
		c.sibling = false
		host := drv.Pick(r, ckHosts)
		c.chOpts = genChOpts(r, host)
		tags := append([]string{"kind=cookieopts", fmt.Sprintf("pkce=%v", c.pkce), fmt.Sprintf("chopts=%d", len(c.chOpts))}, ctags...)
		for _, o := range c.chOpts {
			tags = append(tags, "chopt="+o.kind)
		}
		var p *party
		var err error
		if pn := drv.Catch(func() { p, err = newParty(wd, c, pemKey, opk) }); pn != "" || err != nil {
			dropped++
			continue
		}
		keeps, ops, ktags := genCkCase(r, wd, c.chOpts, host)
		res := p.runCk(keeps, ops)
		undated += res.undated
		var co []string
		for _, o := range c.chOpts {
			co = append(co, o.coq())
		}
		tabKeys := make([]string, 0, len(res.htab))
		for k := range res.htab {
			tabKeys = append(tabKeys, k)
		}
		sort.Strings(tabKeys)
		var tab []string
		for _, k := range tabKeys {
			tab = append(tab, emit.Pair(emit.Str(k), emit.Str(res.htab[k])))
		}
		in := emit.Ctor("InpCk", c.coq(), emit.List(co), emit.Bool(keeps), emit.List(tab), emit.List(res.ops))
		obs := emit.Ctor("ObsCk", emit.List(res.evs))
		if res.panicked {
			obs = "OPanic"
		}
		w.Add(emit.Case{Input: in, Observed: obs, Tags: append(tags, ktags...),
			Human: map[string]any{"config": fmt.Sprintf("%+v", c), "steps": res.human}})
	}
	for i := 0; i < nTail; i++ {
		wd := newWorld(r)
		c, _ := genConfig(r, wd, i)
		// 7 of 9 use the discovery constructor (finishConfig: idx%9 >= 5)
		idx := i
		if i%9 < 5 && i%9 >= 1 {
			idx = i - i%9 + 5 + i%4
		}
		ctags := finishConfig(r, wd, &c, idx)
		c.sibling = false
		oidcRP := c.ctor == "oidc"
		c.wrap = oidcRP && r.Chance(3, 4)
		if probe && !oidcRP {
			c.wrap = true
		}
		vo, t, ttags := genTail(r, oidcRP, c.wrap)
		c.vopts, c.hasVO = vo, true
		// the verifier options reach the RP through rp.WithVerifierOpts (neutral for the configuration)
		has := false
		for _, o := range c.opts {
			if o.kind == "neutral" && o.name == "WithVerifierOpts" {
				has = true
			}
		}
		if !has && (len(vo) > 0 || r.Bool()) {
			at := r.IntN(len(c.opts) + 1)
			c.opts = append(c.opts, optSpec{})
			copy(c.opts[at+1:], c.opts[at:])
			c.opts[at] = optSpec{kind: "neutral", name: "WithVerifierOpts"}
			has = true
		}
		if !has {
			vo, c.vopts = nil, nil
		}
		tags := append([]string{"kind=tail", fmt.Sprintf("pkce=%v", c.pkce)}, append(ctags, ttags...)...)
		var p *party
		var err error
		if pn := drv.Catch(func() { p, err = newParty(wd, c, pemKey, opk) }); pn != "" || err != nil {
			dropped++
			continue
		}
		p.rt.tail = t
		// a real login fills the jar
		st := drv.Pick(r, []string{"st-1", "st-2", "a b&c=d", "Kst-sk"})
		p.states = []string{st}
		rec := httptest.NewRecorder()
		var j jar
		pn := drv.Catch(func() {
			p.rt.ok = true
			p.login.ServeHTTP(rec, httptest.NewRequest("GET", "https://rp.example/login", nil))
		})
		cs, _ := p.cookieCmds(rec.Result())
		j = apply(j, cs)
		// the callback
		qs := st
		switch r.IntN(14) {
		case 0:
			qs = nearMiss(r, st)
			tags = append(tags, "cbstate=nearmiss")
		case 1:
			j = j.del("state")
			tags = append(tags, "cbstate=nocookie")
		default:
			tags = append(tags, "cbstate=same")
		}
		q := [][2]string{{"code", "code-1"}, {"state", qs}}
		if r.Chance(1, 12) {
			q = [][2]string{{"state", qs}, {"error", "access_denied"}}
		}
		tokOK := r.Chance(11, 12)
		req := httptest.NewRequest("GET", "https://rp.example/cb?"+encodeQuery(q), nil)
		attach(req, j)
		rec2 := httptest.NewRecorder()
		p.called, p.info, p.rt.reqs, p.rt.uiReqs, p.rt.ok, p.rt.dropID = nil, nil, nil, nil, tokOK, false
		if pn == "" {
			pn = drv.Catch(func() { p.cb.ServeHTTP(rec2, req) })
		}
		_, csCoq := p.cookieCmds(rec2.Result())
		h := "HOther"
		if len(p.called) == 1 {
			h = p.called[0]
		}
		var reqs, uis []string
		for _, tq := range p.rt.reqs {
			reqs = append(reqs, tq.coq())
		}
		for _, u := range p.rt.uiReqs {
			uis = append(uis, emit.Str(u))
		}
		var voCoq []string
		for _, o := range vo {
			voCoq = append(voCoq, o.coq())
		}
		tr, ui := t.coq(tokOK, oidcRP)
		in := emit.Ctor("InpTail", c.coq(), emit.List(voCoq), emit.Bool(c.wrap), tr, ui, j.coq(), pairs(q))
		obs := emit.Ctor("ObsTail", emit.Ctor("TailOut", emit.Ctor("EvCb", h, emit.List(reqs), csCoq), emit.List(uis), emit.OptStr(p.info)))
		if pn != "" {
			obs = "OPanic"
		}
		w.Add(emit.Case{Input: in, Observed: obs, Tags: tags,
			Human: map[string]any{"config": fmt.Sprintf("%+v", c), "verifier_options": fmt.Sprintf("%+v", vo), "provider": fmt.Sprintf("%+v", *t), "token_endpoint_ok": tokOK,
				"query": q, "handlers": p.called, "userinfo_requests": p.rt.uiReqs, "panic": pn}})
	}
	stats["cookieopts_cases"], stats["tail_cases"], stats["undated_cookies"], stats["dropped"] = nCk, nTail, undated, dropped
	return stats
}

var _ = url.QueryEscape
