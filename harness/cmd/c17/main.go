// Driver for C17 (RP callback: state cookie and PKCE binding).
//
// Runs the real rp.AuthURLHandler / rp.CodeExchangeHandler of a relying party
// built with rp.NewRelyingPartyOAuth and a real CookieHandler, against a
// browser jar kept by the driver and a token endpoint faked as the RP's
// http.RoundTripper (no sockets).  Real cookie strings are mapped to the
// model's symbolic values: `Mac key name value` for what a CookieHandler with
// key material #key minted for that name and value, `Junk label` otherwise.
package main

import (
	"crypto/rand"
	"crypto/rsa"
	"crypto/x509"
	"encoding/pem"
	"fmt"
	"io"
	"net/http"
	"net/http/httptest"
	"net/url"
	"os"
	"sort"
	"strings"

	"github.com/google/uuid"
	"golang.org/x/oauth2"

	"verifharness/drv"
	"verifharness/emit"

	"github.com/zitadel/oidc/v3/pkg/client/rp"
	httphelper "github.com/zitadel/oidc/v3/pkg/http"
	"github.com/zitadel/oidc/v3/pkg/oidc"
)

// ---------- symbolic cookie values ----------

type cval struct {
	mac         bool
	k           int
	name, value string
	label       string
}

func (c cval) coq() string {
	if c.mac {
		return emit.Ctor("Mac", emit.Nat(c.k), emit.Str(c.name), emit.Str(c.value))
	}
	return emit.Ctor("Junk", emit.Str(c.label))
}

type entry struct {
	name string
	raw  string
	sym  cval
}

type jar []entry

func (j jar) del(name string) jar {
	var out jar
	for _, e := range j {
		if e.name != name {
			out = append(out, e)
		}
	}
	return out
}
func (j jar) set(e entry) jar { return append(j.del(e.name), e) }
func (j jar) get(name string) (entry, bool) {
	for _, e := range j {
		if e.name == name {
			return e, true
		}
	}
	return entry{}, false
}
func (j jar) coq() string {
	var items []string
	for _, e := range j {
		items = append(items, emit.Pair(emit.Str(e.name), e.sym.coq()))
	}
	return emit.List(items)
}

// world: key material #0 (the RP's) and #1 (a foreign CookieHandler)
type world struct {
	keys [2][2][]byte
	twin [2]*httphelper.CookieHandler
}

func newWorld(r drv.Rand, encrypt bool) *world {
	w := &world{}
	for i := 0; i < 2; i++ {
		w.keys[i][0] = r.Bytes(32)
		if encrypt {
			w.keys[i][1] = r.Bytes(32)
		}
		w.twin[i] = httphelper.NewCookieHandler(w.keys[i][0], w.keys[i][1])
	}
	return w
}

// mint a cookie with handler #k for name/value
func (w *world) mint(k int, name, value string) entry {
	rec := httptest.NewRecorder()
	if err := w.twin[k].SetCookie(rec, name, value); err != nil {
		return entry{name: name, raw: "", sym: cval{label: "mint-failed"}}
	}
	c := rec.Result().Cookies()[0]
	return entry{name: name, raw: c.Value, sym: cval{mac: true, k: k, name: name, value: value}}
}

// classify a cookie the RP set: decode it with the twin of the RP's handler
func (w *world) classify(name, raw string) cval {
	req := httptest.NewRequest("GET", "/", nil)
	req.AddCookie(&http.Cookie{Name: name, Value: raw})
	if v, err := w.twin[0].CheckCookie(req, name); err == nil {
		return cval{mac: true, k: 0, name: name, value: v}
	}
	return cval{label: "undecodable-set-cookie"}
}

func tamper(r drv.Rand, e entry, kind int) entry {
	raw := e.raw
	label := ""
	switch kind {
	case 0: // truncated (never the full length)
		n := 0
		if len(raw) > 1 {
			n = r.IntN(len(raw) - 1)
		}
		raw = raw[:n]
		label = fmt.Sprintf("trunc%d", n)
	case 1: // one character changed well inside the value
		if len(raw) > 12 {
			p := 2 + r.IntN(len(raw)-10)
			b := []byte(raw)
			if b[p] == 'A' {
				b[p] = 'B'
			} else {
				b[p] = 'A'
			}
			raw = string(b)
			label = fmt.Sprintf("flip%d", p)
		} else {
			raw = "AAAA"
			label = "short"
		}
	case 2: // random base64url text
		const al = "ABCDEFGHIJKLMNOPQRSTUVWXYZabcdefghijklmnopqrstuvwxyz0123456789-_"
		b := make([]byte, 8+r.IntN(120))
		for i := range b {
			b[i] = al[r.IntN(len(al))]
		}
		raw = string(b)
		label = fmt.Sprintf("random%d", len(b))
	default: // the plaintext itself, unsigned
		if e.sym.mac {
			raw = strings.Map(func(c rune) rune {
				if c > 0x20 && c < 0x7f && c != '"' && c != ';' && c != ',' && c != '\\' {
					return c
				}
				return 'x'
			}, e.sym.value)
		}
		label = "plain"
	}
	return entry{name: e.name, raw: raw, sym: cval{label: label + ":" + e.sym.describe()}}
}

func (c cval) describe() string {
	if c.mac {
		return fmt.Sprintf("mac%d/%s/%x", c.k, c.name, c.value)
	}
	return c.label
}

// ---------- the relying party under test ----------

type config struct {
	pkce, jwt bool
	client    string
	redirect  string
	scopes    []string
	auth      string
	extra     [][2]string
	style     oauth2.AuthStyle
}

func (c config) coq() string {
	var ex []string
	for _, kv := range c.extra {
		ex = append(ex, emit.Pair(emit.Str(kv[0]), emit.Str(kv[1])))
	}
	return emit.Ctor("Cfg", emit.Nat(0), emit.Bool(c.pkce), emit.Bool(c.jwt), emit.Str(c.client),
		emit.Str(c.redirect), emit.StrList(c.scopes), emit.Str(c.auth), emit.List(ex))
}

type tokreq struct {
	code, redirect, client string
	verifier               *string
	assertion              bool
}

func (t tokreq) coq() string {
	return emit.Ctor("TokReq", emit.Str(t.code), emit.Str(t.redirect), emit.Str(t.client), emit.OptStr(t.verifier), emit.Bool(t.assertion))
}

// fake token endpoint
type fakeRT struct {
	ok   bool
	reqs []tokreq
}

func (f *fakeRT) RoundTrip(req *http.Request) (*http.Response, error) {
	body, _ := io.ReadAll(req.Body)
	vals, _ := url.ParseQuery(string(body))
	t := tokreq{code: vals.Get("code"), redirect: vals.Get("redirect_uri"), client: vals.Get("client_id")}
	if u, _, ok := req.BasicAuth(); ok {
		if cu, err := url.QueryUnescape(u); err == nil {
			t.client = cu
		}
	}
	if vs, ok := vals["code_verifier"]; ok && len(vs) > 0 {
		v := vs[0]
		t.verifier = &v
	}
	t.assertion = vals.Get("client_assertion") != "" && vals.Get("client_assertion_type") == oidc.ClientAssertionTypeJWTAssertion
	f.reqs = append(f.reqs, t)
	status, payload := 200, `{"access_token":"at","token_type":"Bearer","expires_in":3600}`
	if !f.ok {
		status, payload = 400, `{"error":"invalid_grant"}`
	}
	return &http.Response{StatusCode: status, Status: http.StatusText(status), Proto: "HTTP/1.1", ProtoMajor: 1, ProtoMinor: 1,
		Header: http.Header{"Content-Type": {"application/json"}}, Body: io.NopCloser(strings.NewReader(payload)), Request: req}, nil
}

type party struct {
	w      *world
	cfg    config
	rt     *fakeRT
	login  http.Handler
	cb     http.Handler
	states []string // what stateFn returns, in call order
	nest   func()   // pending re-entrant login, run while the current login evaluates its URL options
	called []string // handlers that ran, as Coq terms
}

func newParty(w *world, cfg config, pemKey []byte) (*party, error) {
	p := &party{w: w, cfg: cfg, rt: &fakeRT{}}
	ch := httphelper.NewCookieHandler(w.keys[0][0], w.keys[0][1])
	opts := []rp.Option{
		rp.WithHTTPClient(&http.Client{Transport: p.rt}),
		rp.WithAuthStyle(cfg.style),
		rp.WithUnauthorizedHandler(func(_ http.ResponseWriter, _ *http.Request, _ string, state string) {
			p.called = append(p.called, emit.Ctor("HUnauth", emit.Str(state)))
		}),
		rp.WithErrorHandler(func(_ http.ResponseWriter, _ *http.Request, e, d, state string) {
			p.called = append(p.called, emit.Ctor("HError", emit.Str(e), emit.Str(d), emit.Str(state)))
		}),
	}
	if cfg.pkce {
		opts = append(opts, rp.WithPKCE(ch))
	} else {
		opts = append(opts, rp.WithCookieHandler(ch))
	}
	if cfg.jwt {
		opts = append(opts, rp.WithJWTProfile(rp.SignerFromKeyAndKeyID(pemKey, "kid1")))
	}
	party, err := rp.NewRelyingPartyOAuth(&oauth2.Config{
		ClientID: cfg.client, ClientSecret: "secret", RedirectURL: cfg.redirect, Scopes: cfg.scopes,
		Endpoint: oauth2.Endpoint{AuthURL: cfg.auth, TokenURL: "https://op.example/oauth/token"},
	}, opts...)
	if err != nil {
		return nil, err
	}
	var up []rp.URLParamOpt
	for _, kv := range cfg.extra {
		up = append(up, rp.WithURLParam(kv[0], kv[1]))
	}
	// always present, contributes no parameter: when a nested login is pending it runs a
	// complete second AuthURLHandler request on the same handler value before returning
	up = append(up, func() []oauth2.AuthCodeOption {
		if f := p.nest; f != nil {
			p.nest = nil
			f()
		}
		return nil
	})
	p.login = rp.AuthURLHandler(func() string {
		if len(p.states) == 0 {
			return "state-queue-empty"
		}
		s := p.states[0]
		p.states = p.states[1:]
		return s
	}, party, up...)
	p.cb = rp.CodeExchangeHandler(func(_ http.ResponseWriter, _ *http.Request, _ *oidc.Tokens[*oidc.IDTokenClaims], state string, _ rp.RelyingParty) {
		p.called = append(p.called, emit.Ctor("HApp", emit.Str(state)))
	}, party)
	return p, nil
}

func attach(req *http.Request, j jar) {
	for _, e := range j {
		req.AddCookie(&http.Cookie{Name: e.name, Value: e.raw})
	}
}

type cmd struct {
	name string
	del  bool
	e    entry
}

func (p *party) cookieCmds(res *http.Response) ([]cmd, string) {
	var cs []cmd
	var items []string
	for _, c := range res.Cookies() {
		if c.MaxAge < 0 {
			cs = append(cs, cmd{name: c.Name, del: true})
			items = append(items, emit.Pair(emit.Str(c.Name), emit.None))
			continue
		}
		e := entry{name: c.Name, raw: c.Value, sym: p.w.classify(c.Name, c.Value)}
		cs = append(cs, cmd{name: c.Name, e: e})
		items = append(items, emit.Pair(emit.Str(c.Name), emit.Some(e.sym.coq())))
	}
	return cs, emit.List(items)
}

func apply(j jar, cs []cmd) jar {
	for _, c := range cs {
		if c.del {
			j = j.del(c.name)
		} else {
			j = j.set(c.e)
		}
	}
	return j
}

// ---------- operations ----------

type op struct {
	kind  string // start | callback | set | del
	state string // start
	q     [][2]string
	post  bool
	tokOK bool
	apply bool
	nested *op   // start: a second login that runs while this one is between computing its challenge and rendering its URL
	e     entry  // set (resolved while running when setKind >= 0)
	setKind int
	name  string // del
}

func pairs(q [][2]string) string {
	var items []string
	for _, kv := range q {
		items = append(items, emit.Pair(emit.Str(kv[0]), emit.Str(kv[1])))
	}
	return emit.List(items)
}

func encodeQuery(q [][2]string) string {
	var parts []string
	for _, kv := range q {
		parts = append(parts, url.QueryEscape(kv[0])+"="+url.QueryEscape(kv[1]))
	}
	return strings.Join(parts, "&")
}

type result struct {
	opsCoq, evsCoq []string
	htab           map[string]string
	panicked       bool
	human          []map[string]any
}

// resolveSet picks the cookie a "set" operation writes, from the jar and from
// what the RP minted so far.  Kinds 0-5 are never acceptable to the RP.
func resolveSet(r drv.Rand, w *world, kind int, j jar, minted []entry) entry {
	junk := func(name string) entry {
		return tamper(r, entry{name: name, sym: cval{label: "none"}}, 2)
	}
	switch kind {
	case 1:
		return w.mint(1, drv.Pick(r, []string{"state", "pkce"}), drv.Pick(r, statePool))
	case 2:
		if e, ok := j.get("state"); ok {
			e.name = "pkce"
			return e
		}
	case 3:
		if e, ok := j.get("pkce"); ok {
			e.name = "state"
			return e
		}
	case 4:
		if e, ok := j.get(drv.Pick(r, []string{"state", "pkce"})); ok && e.raw != "" {
			return tamper(r, e, r.IntN(4))
		}
	case 5:
		return junk("session")
	case 8: // the state cookie of the first login
		for _, e := range minted {
			if e.name == "state" {
				return e
			}
		}
	case 6, 7:
		name := "state"
		if kind == 7 {
			name = "pkce"
		}
		var cands []entry
		for _, e := range minted {
			if e.name == name {
				cands = append(cands, e)
			}
		}
		if len(cands) > 0 {
			return drv.Pick(r, cands)
		}
	}
	return junk(drv.Pick(r, []string{"state", "pkce"}))
}

func (p *party) runOps(r drv.Rand, j jar, ops []op) result {
	res := result{htab: map[string]string{}}
	var minted []entry
	for _, o := range ops {
		if o.kind == "set" && o.setKind >= 0 {
			o.e = resolveSet(r, p.w, o.setKind, j, minted)
		}
		switch o.kind {
		case "start":
			// states handed out by stateFn in call order: outer login first, then the
			// login that runs re-entrantly while the outer one renders its URL
			p.states = []string{o.state}
			p.called = nil
			req := httptest.NewRequest("GET", "https://rp.example/login", nil)
			attach(req, j)
			rec := httptest.NewRecorder()
			var nestedRec *httptest.ResponseRecorder
			if o.nested != nil {
				p.states = append(p.states, o.nested.state)
				jn := j
				p.nest = func() {
					nreq := httptest.NewRequest("GET", "https://rp.example/login", nil)
					attach(nreq, jn)
					nestedRec = httptest.NewRecorder()
					p.login.ServeHTTP(nestedRec, nreq)
				}
			}
			if pn := drv.Catch(func() { p.login.ServeHTTP(rec, req) }); pn != "" {
				res.panicked = true
				return res
			}
			p.nest = nil
			// the nested login's response is complete first; the browser applies it first
			type done struct {
				state string
				hr    *http.Response
				how   string
			}
			var finished []done
			if o.nested != nil && nestedRec != nil {
				finished = append(finished, done{o.nested.state, nestedRec.Result(), "nested"})
			}
			finished = append(finished, done{o.state, rec.Result(), "outer"})
			for _, d := range finished {
				hr := d.hr
				cs, csCoq := p.cookieCmds(hr)
				verifier := ""
				for _, c := range cs {
					if !c.del && c.name == "pkce" && c.e.sym.mac {
						verifier = c.e.sym.value
						res.htab[verifier] = oidc.NewSHACodeChallenge(verifier)
					}
				}
				res.opsCoq = append(res.opsCoq, emit.Ctor("OStart", emit.Str(d.state), emit.Str(verifier)))
				loc := hr.Header.Get("Location")
				if hr.StatusCode != http.StatusFound || len(p.called) > 0 || loc == "" {
					res.evsCoq = append(res.evsCoq, "EvOther")
				} else {
					base, rawq, _ := strings.Cut(loc, "?")
					vals, err := url.ParseQuery(rawq)
					var ps [][2]string
					if err != nil {
						ps = append(ps, [2]string{"<unparsable>", rawq})
					}
					keys := make([]string, 0, len(vals))
					for k := range vals {
						keys = append(keys, k)
					}
					sort.Strings(keys)
					for _, k := range keys {
						for _, v := range vals[k] {
							ps = append(ps, [2]string{k, v})
						}
					}
					res.evsCoq = append(res.evsCoq, emit.Ctor("EvAuth", csCoq, emit.Str(base), pairs(ps)))
				}
				res.human = append(res.human, map[string]any{"op": "start", "overlap": d.how, "state": d.state, "location": loc})
				for _, c := range cs {
					if !c.del {
						minted = append(minted, c.e)
					}
				}
				j = apply(j, cs)
			}
		case "callback":
			p.called = nil
			p.rt.ok = o.tokOK
			p.rt.reqs = nil
			var req *http.Request
			form := o.q
			if o.post {
				// half of the parameters in the body, all of them in the URL: body values win
				half := o.q[:(len(o.q)+1)/2]
				req = httptest.NewRequest("POST", "https://rp.example/cb?"+encodeQuery(o.q), strings.NewReader(encodeQuery(half)))
				req.Header.Set("Content-Type", "application/x-www-form-urlencoded")
				form = append(append([][2]string{}, half...), o.q...)
			} else {
				req = httptest.NewRequest("GET", "https://rp.example/cb?"+encodeQuery(o.q), nil)
			}
			attach(req, j)
			rec := httptest.NewRecorder()
			if pn := drv.Catch(func() { p.cb.ServeHTTP(rec, req) }); pn != "" {
				res.panicked = true
				return res
			}
			cs, csCoq := p.cookieCmds(rec.Result())
			h := "HOther"
			if len(p.called) == 1 {
				h = p.called[0]
			}
			var reqs []string
			for _, t := range p.rt.reqs {
				reqs = append(reqs, t.coq())
			}
			res.opsCoq = append(res.opsCoq, emit.Ctor("OCallback", pairs(form), emit.Bool(o.tokOK), emit.Bool(o.apply)))
			res.evsCoq = append(res.evsCoq, emit.Ctor("EvCb", h, emit.List(reqs), csCoq))
			res.human = append(res.human, map[string]any{"op": "callback", "query": o.q, "post": o.post, "handlers": p.called, "token_requests": len(p.rt.reqs)})
			if o.apply {
				j = apply(j, cs)
			}
		case "set":
			res.opsCoq = append(res.opsCoq, emit.Ctor("OSet", emit.Str(o.e.name), o.e.sym.coq()))
			res.evsCoq = append(res.evsCoq, "EvNone")
			res.human = append(res.human, map[string]any{"op": "set", "name": o.e.name, "value": o.e.sym.describe()})
			j = j.set(o.e)
		case "del":
			res.opsCoq = append(res.opsCoq, emit.Ctor("ODel", emit.Str(o.name)))
			res.evsCoq = append(res.evsCoq, "EvNone")
			res.human = append(res.human, map[string]any{"op": "del", "name": o.name})
			j = j.del(o.name)
		}
	}
	return res
}

// ---------- generators ----------

var statePool = []string{"st-1", "st-2", "st-3", "a b&c=d", "Zm9v.YmFy-_~", "säöü%20", "x", "0123456789abcdef0123456789abcdef", strings.Repeat("long", 40)}

func genConfig(r drv.Rand) config {
	c := config{
		pkce:     r.Chance(3, 5),
		jwt:      r.Chance(1, 4),
		client:   drv.Pick(r, []string{"web-client", "web-client", "cli ent&1=2", "native/app", ""}),
		redirect: drv.Pick(r, []string{"https://rp.example/cb", "https://rp.example/cb", "http://localhost:9999/auth/callback?x=1&y=2", ""}),
		scopes:   drv.Pick(r, [][]string{{"openid"}, {"openid", "profile", "email"}, {}, {"a+b", "c d"}}),
		auth:     drv.Pick(r, []string{"https://op.example/authorize", "https://op.example/oauth/v2/authorize"}),
		style:    drv.Pick(r, []oauth2.AuthStyle{oauth2.AuthStyleInParams, oauth2.AuthStyleInParams, oauth2.AuthStyleInHeader}),
	}
	switch r.IntN(10) {
	case 0, 1:
		c.extra = [][2]string{{"prompt", "login"}}
	case 2:
		c.extra = [][2]string{{"response_mode", "form_post"}, {"foo", "b a&r"}}
	case 3:
		c.extra = [][2]string{{"foo", "1"}, {"foo", "2"}}
	case 4: // overrides what the handler sets (spec: extra_ok = false)
		c.extra = [][2]string{drv.Pick(r, [][2]string{{"state", "forced"}, {"client_id", "other"}, {"scope", "all"}, {"redirect_uri", "https://x.example/"}})}
	case 5:
		c.extra = [][2]string{{"code_challenge", "mine"}, {"code_challenge_method", "plain"}}
	}
	return c
}

func callbackQuery(r drv.Rand, state string, code string) [][2]string {
	q := [][2]string{{"code", code}, {"state", state}}
	switch r.IntN(12) {
	case 0:
		q = [][2]string{{"state", state}, {"error", "access_denied"}, {"error_description", "user said no"}}
	case 1:
		q = [][2]string{{"error", "server_error"}, {"state", state}, {"code", code}}
	case 2: // duplicate state: the first one counts
		q = append(q, [2]string{"state", "other-" + state})
	case 3:
		q = [][2]string{{"state", state}} // no code
	case 4:
		q = append([][2]string{{"error", ""}}, q...)
	}
	return q
}

// all interleavings of n logins S_i and their callbacks C_i with S_i before C_i
func orderings(n int) [][]int { // +i = start i (1-based), -i = callback i
	var out [][]int
	var rec func(cur []int, started, done []bool)
	rec = func(cur []int, started, done []bool) {
		if len(cur) == 2*n {
			out = append(out, append([]int{}, cur...))
			return
		}
		for i := 0; i < n; i++ {
			if !started[i] {
				started[i] = true
				rec(append(cur, i+1), started, done)
				started[i] = false
			} else if !done[i] {
				done[i] = true
				rec(append(cur, -(i + 1)), started, done)
				done[i] = false
			}
		}
	}
	rec(nil, make([]bool, n), make([]bool, n))
	return out
}

func main() {
	cfg := drv.Parse()
	r := drv.NewRand(cfg.Seed)
	w := emit.NewWriter(cfg.Out, "C17_spec", 0, cfg.Only)
	n := cfg.Count(420, 9000)

	// deterministic verifiers: uuid.New() reads from the driver's PRNG
	uuid.SetRand(readerFunc(func(b []byte) (int, error) { copy(b, r.Bytes(len(b))); return len(b), nil }))
	rsaKey, err := rsa.GenerateKey(rand.Reader, 2048)
	if err != nil {
		fmt.Fprintln(os.Stderr, err)
		os.Exit(2)
	}
	pemKey := pem.EncodeToMemory(&pem.Block{Type: "RSA PRIVATE KEY", Bytes: x509.MarshalPKCS1PrivateKey(rsaKey)})

	ord2, ord3 := orderings(2), orderings(3)
	ordIdx := 0
	dropped := 0

	for i := 0; i < n; i++ {
		wd := newWorld(r, r.Bool())
		c := genConfig(r)
		kind := i % 12
		if kind >= 10 && r.Chance(5, 6) {
			c.pkce = true
		}
		p, err := newParty(wd, c, pemKey)
		if err != nil {
			fmt.Fprintln(os.Stderr, "NewRelyingPartyOAuth:", err)
			os.Exit(2)
		}
		var j0 jar
		var ops []op
		tags := []string{fmt.Sprintf("pkce=%v", c.pkce), fmt.Sprintf("jwt=%v", c.jwt)}
		switch {
		case kind < 3: // (jar, query) pair: scripted jar, one callback
			tags = append(tags, "kind=pair")
			s := drv.Pick(r, statePool)
			v := "verifier-" + fmt.Sprint(r.IntN(1000))
			stateE := wd.mint(0, "state", s)
			pkceE := wd.mint(0, "pkce", v)
			sc := r.IntN(15)
			if sc >= 12 {
				sc = 0
			}
			switch sc {
			case 0, 1, 2: // valid and matching
				j0 = j0.set(stateE)
			case 3: // valid, other value
				j0 = j0.set(wd.mint(0, "state", s+"-other"))
			case 4: // minted under other keys
				j0 = j0.set(wd.mint(1, "state", s))
			case 5: // minted for the other name (pkce cookie holding the state), stored as "state"
				e := wd.mint(0, "pkce", s)
				e.name = "state"
				j0 = j0.set(e)
			case 6: // swapped: state cookie under "pkce", pkce cookie under "state"
				a, b := stateE, pkceE
				a.name, b.name = "pkce", "state"
				j0 = append(j0, b)
				pkceE = a
			case 7, 8:
				j0 = j0.set(tamper(r, stateE, r.IntN(4)))
			case 9: // missing
			case 10: // two state cookies, junk first
				j0 = append(j0, tamper(r, stateE, 2), stateE)
			case 11: // two state cookies, valid first
				j0 = append(j0, stateE, wd.mint(1, "state", s))
			}
			tags = append(tags, fmt.Sprintf("statecookie=%d", sc))
			pc := r.IntN(8)
			switch pc {
			case 0, 1, 2, 3:
				j0 = append(j0.del("pkce"), pkceE)
			case 4:
				j0 = append(j0.del("pkce"), wd.mint(1, "pkce", v))
			case 5:
				e := wd.mint(0, "state", v)
				e.name = "pkce"
				j0 = append(j0.del("pkce"), e)
			case 6:
				j0 = append(j0.del("pkce"), tamper(r, pkceE, r.IntN(4)))
			case 7:
				if sc != 6 {
					j0 = j0.del("pkce")
				}
			}
			tags = append(tags, fmt.Sprintf("pkcecookie=%d", pc))
			qs := s
			if r.Chance(1, 6) {
				qs = drv.Pick(r, []string{"", s + "x", "st-9", strings.ToUpper(s)})
			}
			ops = []op{{kind: "callback", q: callbackQuery(r, qs, "code-1"), post: r.Chance(1, 5), tokOK: r.Chance(4, 5), apply: true}}
		case kind < 6: // every ordering of 2 or 3 concurrent logins and their callbacks
			ords := ord2
			if ordIdx%4 == 3 || !cfg.Quick {
				ords = ord3
			}
			if !cfg.Quick && ordIdx%5 == 0 {
				ords = ord2
			}
			ord := ords[ordIdx%len(ords)]
			ordIdx++
			tags = append(tags, "kind=ordering", fmt.Sprintf("logins=%d", len(ord)/2))
			states := []string{"st-1", "st-2", "st-3"}
			if r.Chance(1, 5) {
				states = []string{drv.Pick(r, statePool), drv.Pick(r, statePool), drv.Pick(r, statePool)}
			}
			for _, x := range ord {
				if x > 0 {
					ops = append(ops, op{kind: "start", state: states[x-1]})
				} else {
					ops = append(ops, op{kind: "callback", q: callbackQuery(r, states[-x-1], fmt.Sprintf("code-%d", -x)),
						post: r.Chance(1, 8), tokOK: r.Chance(5, 6), apply: r.Chance(7, 8)})
				}
			}
		case kind >= 10: // overlapping logins: a second login runs re-entrantly inside the first one's URL rendering
			variant := (i / 12) % 4
			tags = append(tags, "kind=overlap", fmt.Sprintf("overlap=%d", variant))
			st := []string{"st-1", "st-2", "st-3", "st-4"}
			if r.Chance(1, 5) {
				st = []string{drv.Pick(r, statePool), drv.Pick(r, statePool), "st-3", drv.Pick(r, statePool)}
			}
			cb := func(k int) op {
				return op{kind: "callback", q: callbackQuery(r, st[k], fmt.Sprintf("code-%d", k+1)), post: r.Chance(1, 8), tokOK: r.Chance(5, 6), apply: r.Chance(7, 8)}
			}
			shuffled := func(ks ...int) []op {
				r.Shuffle(len(ks), func(a, b int) { ks[a], ks[b] = ks[b], ks[a] })
				var out []op
				for _, k := range ks {
					out = append(out, cb(k))
				}
				return out
			}
			nest := func(outer, inner int) op {
				return op{kind: "start", state: st[outer], nested: &op{kind: "start", state: st[inner]}}
			}
			switch variant {
			case 0: // login 1 overlapped by login 2
				ops = append([]op{nest(0, 1)}, shuffled(0, 1)...)
			case 1: // login 1, then login 2 overlapped by login 3
				ops = append([]op{{kind: "start", state: st[0]}, nest(1, 2)}, shuffled(0, 1, 2)...)
			case 2:
				ops = []op{nest(0, 1), cb(0), nest(2, 3), cb(2), cb(3)}
			default:
				ops = []op{{kind: "start", state: st[0]}, cb(0), nest(1, 2), cb(1), cb(2)}
			}
		default: // random history; kind 9 also replays old valid cookies (not "honest")
			replay := kind == 9
			if replay {
				tags = append(tags, "kind=replay")
			} else {
				tags = append(tags, "kind=history")
			}
			if replay && r.Bool() {
				// directed: login a, login b, a's state cookie re-inserted next to b's pkce cookie, callback for a
				tags = append(tags, "replay=mixed")
				a, b := "st-1", "st-2"
				ops = []op{{kind: "start", state: a}, {kind: "start", state: b}, {kind: "set", setKind: 8},
					{kind: "callback", q: [][2]string{{"code", "code-a"}, {"state", a}}, tokOK: true, apply: true}}
				break
			}
			var started []string
			m := 3 + r.IntN(6)
			ops = append(ops, op{kind: "start", state: drv.Pick(r, statePool)})
			started = append(started, ops[0].state)
			for len(ops) < m {
				switch r.IntN(10) {
				case 0, 1, 2:
					s := drv.Pick(r, statePool)
					o := op{kind: "start", state: s}
					if r.Chance(1, 5) { // overlapped by another login
						o.nested = &op{kind: "start", state: drv.Pick(r, statePool)}
						started = append(started, o.nested.state)
					}
					ops = append(ops, o)
					started = append(started, s)
				case 3, 4, 5, 6:
					s := started[len(started)-1]
					if r.Chance(1, 3) {
						s = drv.Pick(r, started)
					}
					if r.Chance(1, 10) {
						s = "unknown"
					}
					ops = append(ops, op{kind: "callback", q: callbackQuery(r, s, fmt.Sprintf("code-%d", len(ops))),
						post: r.Chance(1, 8), tokOK: r.Chance(5, 6), apply: r.Chance(5, 6)})
				case 7:
					ops = append(ops, op{kind: "del", name: drv.Pick(r, []string{"state", "pkce", "other"})})
				default: // resolved while running (needs the jar)
					sk := r.IntN(6)
					if replay && r.Bool() {
						sk = 6 + r.IntN(2)
					}
					ops = append(ops, op{kind: "set", setKind: sk})
				}
			}
		}
		res := p.runOps(r, j0, ops)
		if len(res.opsCoq) == 0 && !res.panicked {
			dropped++
			continue
		}
		tabKeys := make([]string, 0, len(res.htab))
		for k := range res.htab {
			tabKeys = append(tabKeys, k)
		}
		sort.Strings(tabKeys)
		var tab []string
		for _, k := range tabKeys {
			tab = append(tab, emit.Pair(emit.Str(k), emit.Str(res.htab[k])))
		}
		in := emit.Ctor("Inp", c.coq(), emit.List(tab), j0.coq(), emit.List(res.opsCoq))
		obs := emit.Ctor("Obs", emit.List(res.evsCoq))
		if res.panicked {
			// the operations up to the panic are not all known in symbolic form: give the planned ones
			obs = "OPanic"
		}
		tags = append(tags, fmt.Sprintf("ops=%d", min(len(ops), 8)))
		w.Add(emit.Case{Input: in, Observed: obs, Tags: tags,
			Human: map[string]any{"config": fmt.Sprintf("%+v", c), "jar": j0.coq(), "steps": res.human}})
	}
	err = w.Close(emit.Meta{Property: "C17", Tier: cfg.Tier, Seed: cfg.Seed,
		Rule: "each case = one RP configuration (PKCE, JWT profile, client, redirect URI, scopes, URL options, auth style, cookie encryption) + initial jar + history in one browser jar. kind=pair: scripted jar (valid / other value / other keys / other name / swapped / truncated / flipped / random / plaintext / missing / duplicate cookies) and one callback query; kind=ordering: every interleaving of 2 or 3 logins and their callbacks, cycled; kind=overlap: a login during whose URL rendering a complete second login runs re-entrantly on the same handler value (1st of 2, 2nd of 3, twice, after a finished flow); kind=history: random logins (some overlapped), callbacks (GET/POST, lost responses), deletions and unacceptable foreign cookie writes; kind=replay: histories that also re-insert older validly minted cookies. Non-trivial = the model's path class != 0 (anything beyond 'no state cookie in the jar'); distinct = distinct (input, path).",
		Extra: map[string]any{"orderings_2": len(ord2), "orderings_3": len(ord3), "ordering_cases": ordIdx, "dropped": dropped},
	})
	if err != nil {
		fmt.Fprintln(os.Stderr, err)
		os.Exit(2)
	}
}

type readerFunc func([]byte) (int, error)

func (f readerFunc) Read(b []byte) (int, error) { return f(b) }
