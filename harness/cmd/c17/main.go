// Driver for C17 (RP callback: state cookie and PKCE binding).
//
// Runs the real rp.AuthURLHandler / rp.CodeExchangeHandler of a relying party
// built with rp.NewRelyingPartyOAuth or with rp.NewRelyingPartyOIDC (against a
// mock OP: discovery document, JWKS and token endpoint served by the RP's
// http.RoundTripper, no sockets) and a real CookieHandler, against a browser jar
// kept by the driver.  The way the RP is built is part of the input: constructor,
// option list in order, what the OP's discovery document announces.  Real cookie strings are mapped to the
// model's symbolic values: `Mac key name value` for what a CookieHandler with
// key material #key minted for that name and value, `Junk label` otherwise.
package main

import (
	"context"
	"crypto/rand"
	"crypto/rsa"
	"crypto/sha256"
	"crypto/x509"
	"encoding/base64"
	"encoding/json"
	"encoding/pem"
	"fmt"
	"io"
	"log/slog"
	"net/http"
	"net/http/httptest"
	"net/url"
	"os"
	"sort"
	"strings"
	"time"

	jose "github.com/go-jose/go-jose/v4"
	"github.com/google/uuid"
	"golang.org/x/oauth2"

	"verifharness/drv"
	"verifharness/emit"

	"github.com/zitadel/oidc/v3/pkg/client"
	"github.com/zitadel/oidc/v3/pkg/client/rp"
	httphelper "github.com/zitadel/oidc/v3/pkg/http"
	"github.com/zitadel/oidc/v3/pkg/oidc"
)

// ---------- symbolic cookie values ----------

type cval struct {
	mac         bool
	k           int
	name, value string
	label       string
}

func (c cval) coq() string {
	if c.mac {
		return emit.Ctor("Mac", emit.Nat(c.k), emit.Str(c.name), emit.Str(c.value))
	}
	return emit.Ctor("Junk", emit.Str(c.label))
}

type entry struct {
	name string
	raw  string
	sym  cval
}

type jar []entry

func (j jar) del(name string) jar {
	var out jar
	for _, e := range j {
		if e.name != name {
			out = append(out, e)
		}
	}
	return out
}
func (j jar) set(e entry) jar { return append(j.del(e.name), e) }
func (j jar) get(name string) (entry, bool) {
	for _, e := range j {
		if e.name == name {
			return e, true
		}
	}
	return entry{}, false
}
func (j jar) coq() string {
	var items []string
	for _, e := range j {
		items = append(items, emit.Pair(emit.Str(e.name), e.sym.coq()))
	}
	return emit.List(items)
}

// world: key material #0 (the RP's) and #1..#4: foreign CookieHandlers whose keys are
// NEAR MISSES of the RP's keys (the model says: any difference in the key material rejects).
//   #1 hash key differs only behind a common prefix of 64 / 32 / 16 / 8 bytes, same block key
//   #2 hash key of another length: a prefix of the RP's key (64 / 32 / 16 / 8 bytes) or the RP's key extended, same block key
//   #3 same hash key, different block key (none / other length / last byte differs)
//   #4 first byte differs, or unrelated random keys
// All key bytes are non-zero (HMAC zero-pads short keys: K and K||0 are the same key by definition).
const nHandlers = 5

type world struct {
	keys  [nHandlers][2][]byte
	twin  [nHandlers]*httphelper.CookieHandler
	modes [nHandlers]string
}

func nzBytes(r drv.Rand, n int) []byte {
	b := make([]byte, n)
	for i := range b {
		b[i] = byte(1 + r.IntN(255))
	}
	return b
}

func flipAt(r drv.Rand, key []byte, from int) []byte {
	k := append([]byte{}, key...)
	i := from + r.IntN(len(k)-from)
	old := k[i]
	for k[i] == old || k[i] == 0 {
		k[i] = byte(1 + r.IntN(255))
	}
	return k
}

func prefixBelow(n int) int {
	for _, p := range []int{64, 32, 16, 8} {
		if p < n {
			return p
		}
	}
	return 1
}

func newWorld(r drv.Rand) *world {
	w := &world{}
	hk := nzBytes(r, drv.Pick(r, []int{16, 32, 33, 48, 64, 65, 100}))
	var bk []byte
	if n := drv.Pick(r, []int{0, 0, 16, 24, 32, 32}); n > 0 {
		bk = nzBytes(r, n)
	}
	w.keys[0] = [2][]byte{hk, bk}
	w.modes[0] = fmt.Sprintf("rp-hash%d-block%d", len(hk), len(bk))
	// #1 differing tail
	p := prefixBelow(len(hk))
	w.keys[1] = [2][]byte{flipAt(r, hk, p), bk}
	w.modes[1] = fmt.Sprintf("tail-after-%d", p)
	// #2 other length
	if r.Bool() {
		w.keys[2] = [2][]byte{append([]byte{}, hk[:p]...), bk}
		w.modes[2] = fmt.Sprintf("prefix-%d", p)
	} else {
		ext := drv.Pick(r, []int{1, 16, 32})
		w.keys[2] = [2][]byte{append(append([]byte{}, hk...), nzBytes(r, ext)...), bk}
		w.modes[2] = fmt.Sprintf("extended-%d", ext)
	}
	// #3 same hash key, other block key
	switch {
	case bk == nil:
		w.keys[3] = [2][]byte{hk, nzBytes(r, drv.Pick(r, []int{16, 24, 32}))}
		w.modes[3] = "block-added"
	case r.IntN(3) == 0:
		w.keys[3] = [2][]byte{hk, nil}
		w.modes[3] = "block-removed"
	case r.Bool():
		w.keys[3] = [2][]byte{hk, flipAt(r, bk, len(bk)-1)}
		w.modes[3] = "block-last-byte"
	default:
		w.keys[3] = [2][]byte{hk, nzBytes(r, drv.Pick(r, []int{16, 24, 32}))}
		w.modes[3] = "block-other"
	}
	// #4 first byte / unrelated
	if r.Bool() {
		k := append([]byte{}, hk...)
		k[0] ^= 0x80
		if k[0] == 0 {
			k[0] = 0x7f
		}
		w.keys[4] = [2][]byte{k, bk}
		w.modes[4] = "first-byte"
	} else {
		w.keys[4] = [2][]byte{nzBytes(r, len(hk)), nzBytes(r, 32)}
		w.modes[4] = "unrelated"
	}
	for i := 0; i < nHandlers; i++ {
		w.twin[i] = httphelper.NewCookieHandler(w.keys[i][0], w.keys[i][1])
	}
	return w
}

// foreign picks one of the foreign handlers
func (w *world) foreign(r drv.Rand) int { return 1 + r.IntN(nHandlers-1) }

// mint a cookie with handler #k for name/value
func (w *world) mint(k int, name, value string) entry {
	rec := httptest.NewRecorder()
	if err := w.twin[k].SetCookie(rec, name, value); err != nil {
		return entry{name: name, raw: "", sym: cval{label: "mint-failed"}}
	}
	cs := rec.Result().Cookies()
	if len(cs) == 0 {
		return entry{name: name, raw: "", sym: cval{label: "mint-failed"}}
	}
	return entry{name: name, raw: cs[0].Value, sym: cval{mac: true, k: k, name: name, value: value}}
}

// classify a cookie the RP set: decode it with the twin of the RP's handler (and, should
// the RP have used another handler passed to its constructor, with the foreign ones)
func (w *world) classify(name, raw string) cval {
	req := httptest.NewRequest("GET", "/", nil)
	req.AddCookie(&http.Cookie{Name: name, Value: raw})
	for k := 0; k < nHandlers; k++ {
		if v, err := w.twin[k].CheckCookie(req, name); err == nil {
			return cval{mac: true, k: k, name: name, value: v}
		}
	}
	return cval{label: "undecodable-set-cookie"}
}

func tamper(r drv.Rand, e entry, kind int) entry {
	raw := e.raw
	label := ""
	switch kind {
	case 0: // truncated (never the full length)
		n := 0
		if len(raw) > 1 {
			n = r.IntN(len(raw) - 1)
		}
		raw = raw[:n]
		label = fmt.Sprintf("trunc%d", n)
	case 1: // one character changed well inside the value
		if len(raw) > 12 {
			p := 2 + r.IntN(len(raw)-10)
			b := []byte(raw)
			if b[p] == 'A' {
				b[p] = 'B'
			} else {
				b[p] = 'A'
			}
			raw = string(b)
			label = fmt.Sprintf("flip%d", p)
		} else {
			raw = "AAAA"
			label = "short"
		}
	case 2: // random base64url text
		const al = "ABCDEFGHIJKLMNOPQRSTUVWXYZabcdefghijklmnopqrstuvwxyz0123456789-_"
		b := make([]byte, 8+r.IntN(120))
		for i := range b {
			b[i] = al[r.IntN(len(al))]
		}
		raw = string(b)
		label = fmt.Sprintf("random%d", len(b))
	default: // the plaintext itself, unsigned
		if e.sym.mac {
			raw = strings.Map(func(c rune) rune {
				if c > 0x20 && c < 0x7f && c != '"' && c != ';' && c != ',' && c != '\\' {
					return c
				}
				return 'x'
			}, e.sym.value)
		}
		label = "plain"
	}
	return entry{name: e.name, raw: raw, sym: cval{label: label + ":" + e.sym.describe()}}
}

func (c cval) describe() string {
	if c.mac {
		return fmt.Sprintf("mac%d/%s/%x", c.k, c.name, c.value)
	}
	return c.label
}

// s256 is the ground truth for "the matching S256 challenge" (RFC 7636 section 4.2:
// BASE64URL-ENCODE(SHA256(ASCII(code_verifier))), no padding), computed WITHOUT the
// library's oidc.NewSHACodeChallenge / crypto.HashString.
func s256(verifier string) string {
	h := sha256.Sum256([]byte(verifier))
	return base64.RawURLEncoding.EncodeToString(h[:])
}

// ---------- the relying party under test ----------

// optSpec is one rp.Option passed to the constructor
type optSpec struct {
	kind string // cookie | pkce | jwt | neutral
	k    int    // cookie / pkce: which CookieHandler (key material number)
	name string // neutral: which option
}

func (o optSpec) coq() string {
	switch o.kind {
	case "cookie":
		return emit.Ctor("WithCookieHandler", emit.Nat(o.k))
	case "pkce":
		return emit.Ctor("WithPKCE", emit.Nat(o.k))
	case "jwt":
		return "WithJWTProfile"
	}
	return emit.Ctor("WithNeutral", emit.Str(o.name))
}

// docSpec is the OP's discovery document (NewRelyingPartyOIDC only): the JSON members as
// served (a member that is missing from the map is absent from the document, nil = null)
type docSpec struct {
	issuer    string
	token     string
	jwks      string
	customURL string // WithCustomDiscoveryUrl, "" = the well-known location
	fields    map[string]any
}

func (d docSpec) optList(key string) string {
	if l, ok := d.fields[key].([]string); ok {
		return emit.Some(emit.StrList(l))
	}
	return emit.None
}

type config struct {
	pkce, jwt bool // what the option list amounts to (generation intent)
	ctor      string // oauth | oidc
	sibling   bool   // environment, not input: a second RP with the opposite PKCE setting is built (and used once) afterwards
	opts      []optSpec
	doc       docSpec
	client    string
	redirect  string
	scopes    []string
	auth      string
	extra     [][2]string
	// extraTyped[i]: extra[i] is passed through the option's own constructor
	// (rp.WithResponseModeURLParam / rp.WithPromptURLParam) instead of rp.WithURLParam
	extraTyped []bool
	style      oauth2.AuthStyle
	// round 11 (ext.go): options every CookieHandler of the option list is built with,
	// verifier options (passed as rp.WithVerifierOpts), UserinfoCallback wrapper
	chOpts []chOpt
	vopts  []vOpt
	hasVO  bool
	wrap   bool
}

func (c config) typed(i int) bool { return i < len(c.extraTyped) && c.extraTyped[i] }

func (c config) coq() string {
	var ex, os []string
	for i, kv := range c.extra {
		switch {
		case c.typed(i) && kv[0] == "response_mode":
			ex = append(ex, emit.Ctor("UResponseMode", emit.Str(kv[1])))
		case c.typed(i) && kv[0] == "prompt":
			ex = append(ex, emit.Ctor("UPrompt", emit.StrList(promptList(kv[1]))))
		default:
			ex = append(ex, emit.Ctor("UParam", emit.Str(kv[0]), emit.Str(kv[1])))
		}
	}
	for _, o := range c.opts {
		os = append(os, o.coq())
	}
	ctor := emit.Ctor("NewOAuth", emit.Str(c.auth))
	if c.ctor == "oidc" {
		ctor = emit.Ctor("NewOIDC", emit.Ctor("Disc", emit.Str(c.auth),
			c.doc.optList("code_challenge_methods_supported"), c.doc.optList("scopes_supported"),
			c.doc.optList("response_types_supported"), c.doc.optList("grant_types_supported"),
			c.doc.optList("token_endpoint_auth_methods_supported")))
	}
	return emit.Ctor("Setup", ctor, emit.List(os), emit.Str(c.client),
		emit.Str(c.redirect), emit.StrList(c.scopes), emit.Ctor("extras", emit.List(ex)))
}

// promptList: the arguments of rp.WithPromptURLParam whose rendering is v
func promptList(v string) []string {
	if v == "" {
		return nil
	}
	return strings.Split(v, " ")
}

type tokreq struct {
	code, redirect, client string
	verifier               *string
	assertion              bool
}

func (t tokreq) coq() string {
	return emit.Ctor("TokReq", emit.Str(t.code), emit.Str(t.redirect), emit.Str(t.client), emit.OptStr(t.verifier), emit.Bool(t.assertion))
}

// the mock OP behind the RP's http client: token endpoint, and for NewRelyingPartyOIDC
// the discovery document and the JWKS
type fakeRT struct {
	ok     bool
	dropID bool // OIDC: answer 200 without id_token
	reqs   []tokreq
	doc    *docSpec // nil for NewRelyingPartyOAuth
	client string
	signer jose.Signer
	jwks   []byte
	// round 11: what the provider answers in a kind=tail case (nil otherwise)
	tail   *tailSpec
	uiReqs []string // authorization headers of the userinfo requests
}

func httpResp(req *http.Request, status int, payload string) *http.Response {
	return &http.Response{StatusCode: status, Status: http.StatusText(status), Proto: "HTTP/1.1", ProtoMajor: 1, ProtoMinor: 1,
		Header: http.Header{"Content-Type": {"application/json"}}, Body: io.NopCloser(strings.NewReader(payload)), Request: req}
}

func (f *fakeRT) RoundTrip(req *http.Request) (*http.Response, error) {
	// the OP's other endpoints (reached only by the API calls between the logins)
	switch {
	case strings.HasSuffix(req.URL.Path, "/userinfo"):
		if f.tail != nil {
			f.uiReqs = append(f.uiReqs, req.Header.Get("authorization"))
			return httpResp(req, f.tail.uiStatus, f.tail.uiBody), nil
		}
		return httpResp(req, 200, `{"sub":"user-1","name":"User One"}`), nil
	case strings.HasSuffix(req.URL.Path, "/revoke"):
		return httpResp(req, 200, `{}`), nil
	case strings.HasSuffix(req.URL.Path, "/end_session"):
		resp := httpResp(req, 302, ``)
		resp.Header.Set("Location", "https://rp.example/bye?state=bye-state")
		return resp, nil
	case strings.HasSuffix(req.URL.Path, "/device_authorization"):
		return httpResp(req, 200, `{"device_code":"dc-1","user_code":"ABCD-EFGH","verification_uri":"https://op.example/device","expires_in":600,"interval":5}`), nil
	}
	if f.doc != nil && req.Method == http.MethodGet {
		u := req.URL.String()
		switch {
		case u == strings.TrimSuffix(f.doc.issuer, "/")+oidc.DiscoveryEndpoint || (f.doc.customURL != "" && u == f.doc.customURL):
			b, _ := json.Marshal(f.doc.fields)
			return httpResp(req, 200, string(b)), nil
		case u == f.doc.jwks:
			if len(f.reqs) == 0 { // a request to the provider that is not preceded by a token request
				f.reqs = append(f.reqs, tokreq{code: "<jwks-request-before-any-token-request>"})
			}
			return httpResp(req, 200, string(f.jwks)), nil
		}
		f.reqs = append(f.reqs, tokreq{code: "<unexpected GET " + u + ">"})
		return httpResp(req, 404, `{}`), nil
	}
	var body []byte
	if req.Body != nil {
		body, _ = io.ReadAll(req.Body)
	}
	vals, _ := url.ParseQuery(string(body))
	t := tokreq{code: vals.Get("code"), redirect: vals.Get("redirect_uri"), client: vals.Get("client_id")}
	if u, _, ok := req.BasicAuth(); ok {
		if cu, err := url.QueryUnescape(u); err == nil {
			t.client = cu
		}
	}
	if vs, ok := vals["code_verifier"]; ok && len(vs) > 0 {
		v := vs[0]
		t.verifier = &v
	}
	t.assertion = vals.Get("client_assertion") != "" && vals.Get("client_assertion_type") == oidc.ClientAssertionTypeJWTAssertion
	f.reqs = append(f.reqs, t)
	if !f.ok {
		return httpResp(req, 400, `{"error":"invalid_grant"}`), nil
	}
	payload := map[string]any{"access_token": "at", "token_type": "Bearer", "expires_in": 3600}
	if f.tail != nil {
		payload["access_token"], payload["token_type"] = f.tail.access, f.tail.ttype
	}
	if f.doc != nil && !f.dropID && (f.tail == nil || !f.tail.noID) {
		now := time.Now()
		cl := map[string]any{"iss": f.doc.issuer, "sub": "user-1", "aud": []string{f.client},
			"exp": now.Add(time.Hour).Unix(), "iat": now.Unix(), "auth_time": now.Unix()}
		if t := f.tail; t != nil {
			cl["sub"], cl["exp"] = t.sub, now.Unix()+t.expIn
			delete(cl, "iat")
			delete(cl, "auth_time")
			if t.iatAge != nil {
				cl["iat"] = now.Unix() - *t.iatAge
			}
			if t.authAge != nil {
				cl["auth_time"] = now.Unix() - *t.authAge
			}
		}
		claims, _ := json.Marshal(cl)
		if sig, err := f.signer.Sign(claims); err == nil {
			if tok, err := sig.CompactSerialize(); err == nil {
				payload["id_token"] = tok
			}
		}
	}
	b, _ := json.Marshal(payload)
	return httpResp(req, 200, string(b)), nil
}

// the OP's signing key (one per run)
type opKeys struct {
	signer jose.Signer
	jwks   []byte
}

func newOPKeys(key *rsa.PrivateKey) opKeys {
	signer, err := jose.NewSigner(jose.SigningKey{Algorithm: jose.RS256, Key: jose.JSONWebKey{Key: key, KeyID: "op-key-1"}}, nil)
	if err != nil {
		fmt.Fprintln(os.Stderr, err)
		os.Exit(2)
	}
	set, _ := json.Marshal(jose.JSONWebKeySet{Keys: []jose.JSONWebKey{{Key: &key.PublicKey, KeyID: "op-key-1", Algorithm: "RS256", Use: "sig"}}})
	return opKeys{signer: signer, jwks: set}
}

type party struct {
	w      *world
	cfg    config
	rt     *fakeRT
	login  http.Handler
	cb     http.Handler
	states []string // what stateFn returns, in call order
	nest   func()   // pending re-entrant login, run while the current login evaluates its URL options
	called []string // handlers that ran, as Coq terms
	info   *string  // UserinfoCallback: the subject of the userinfo handed to the application
	rp     rp.RelyingParty
	// the scopes slice handed to the constructor: the driver's OWN copy (cfg.scopes stays the
	// ground truth of what was configured), with spare capacity, compared after every API call
	callerScopes []string
}

func newParty(w *world, cfg config, pemKey []byte, ok opKeys) (*party, error) {
	p := &party{w: w, cfg: cfg, rt: &fakeRT{client: cfg.client, signer: ok.signer, jwks: ok.jwks}}
	if cfg.ctor == "oidc" {
		p.rt.doc = &p.cfg.doc
	}
	var opts []rp.Option
	for _, o := range cfg.opts {
		switch o.kind {
		case "cookie":
			opts = append(opts, rp.WithCookieHandler(httphelper.NewCookieHandler(w.keys[o.k][0], w.keys[o.k][1], goChOpts(cfg.chOpts)...)))
		case "pkce":
			opts = append(opts, rp.WithPKCE(httphelper.NewCookieHandler(w.keys[o.k][0], w.keys[o.k][1], goChOpts(cfg.chOpts)...)))
		case "jwt":
			opts = append(opts, rp.WithJWTProfile(rp.SignerFromKeyAndKeyID(pemKey, "kid1")))
		default:
			switch o.name {
			case "WithHTTPClient":
				opts = append(opts, rp.WithHTTPClient(&http.Client{Transport: p.rt}))
			case "WithAuthStyle":
				opts = append(opts, rp.WithAuthStyle(cfg.style))
			case "WithUnauthorizedHandler":
				opts = append(opts, rp.WithUnauthorizedHandler(func(_ http.ResponseWriter, _ *http.Request, _ string, state string) {
					p.called = append(p.called, emit.Ctor("HUnauth", emit.Str(state)))
				}))
			case "WithErrorHandler":
				opts = append(opts, rp.WithErrorHandler(func(_ http.ResponseWriter, _ *http.Request, e, d, state string) {
					p.called = append(p.called, emit.Ctor("HError", emit.Str(e), emit.Str(d), emit.Str(state)))
				}))
			case "WithSigningAlgsFromDiscovery":
				opts = append(opts, rp.WithSigningAlgsFromDiscovery())
			case "WithCustomDiscoveryUrl":
				opts = append(opts, rp.WithCustomDiscoveryUrl(cfg.doc.customURL))
			case "WithVerifierOpts":
				if cfg.hasVO { // kind=tail: the verifier options are part of the input
					opts = append(opts, rp.WithVerifierOpts(goVOpts(cfg.vopts)...))
				} else {
					opts = append(opts, rp.WithVerifierOpts(rp.WithIssuedAtOffset(5*time.Second)))
				}
			case "WithLogger":
				opts = append(opts, rp.WithLogger(slog.New(slog.NewTextHandler(io.Discard, nil))))
			}
		}
	}
	var party rp.RelyingParty
	var err error
	p.callerScopes = append(make([]string, 0, len(cfg.scopes)+4), cfg.scopes...)
	if cfg.ctor == "oidc" {
		party, err = rp.NewRelyingPartyOIDC(context.Background(), cfg.doc.issuer, cfg.client, "secret", cfg.redirect, p.callerScopes, opts...)
	} else {
		party, err = rp.NewRelyingPartyOAuth(&oauth2.Config{
			ClientID: cfg.client, ClientSecret: "secret", RedirectURL: cfg.redirect, Scopes: p.callerScopes,
			Endpoint: oauth2.Endpoint{AuthURL: cfg.auth, TokenURL: "https://op.example/oauth/token"},
		}, opts...)
	}
	if err != nil {
		return nil, err
	}
	p.rp = party
	var up []rp.URLParamOpt
	for i, kv := range cfg.extra {
		switch {
		case cfg.typed(i) && kv[0] == "response_mode":
			up = append(up, rp.WithResponseModeURLParam(oidc.ResponseMode(kv[1])))
		case cfg.typed(i) && kv[0] == "prompt":
			up = append(up, rp.WithPromptURLParam(promptList(kv[1])...))
		default:
			up = append(up, rp.WithURLParam(kv[0], kv[1]))
		}
	}
	// always present, contributes no parameter: when a nested login is pending it runs a
	// complete second AuthURLHandler request on the same handler value before returning
	up = append(up, func() []oauth2.AuthCodeOption {
		if f := p.nest; f != nil {
			f()
		}
		return nil
	})
	p.login = rp.AuthURLHandler(func() string {
		if len(p.states) == 0 {
			return "state-queue-empty"
		}
		s := p.states[0]
		p.states = p.states[1:]
		return s
	}, party, up...)
	reentrant := rp.URLParamOpt(func() []oauth2.AuthCodeOption {
		if f := p.nest; f != nil {
			f()
		}
		return nil
	})
	p.cb = rp.CodeExchangeHandler(func(_ http.ResponseWriter, _ *http.Request, _ *oidc.Tokens[*oidc.IDTokenClaims], state string, _ rp.RelyingParty) {
		p.called = append(p.called, emit.Ctor("HApp", emit.Str(state)))
	}, party, reentrant)
	if cfg.wrap { // the application's callback wrapped in rp.UserinfoCallback
		p.cb = rp.CodeExchangeHandler(rp.UserinfoCallback(func(_ http.ResponseWriter, _ *http.Request, _ *oidc.Tokens[*oidc.IDTokenClaims], state string, _ rp.RelyingParty, info *oidc.UserInfo) {
			p.called = append(p.called, emit.Ctor("HApp", emit.Str(state)))
			sub := "<nil userinfo>"
			if info != nil {
				sub = info.Subject
			}
			p.info = &sub
		}), party, reentrant)
	}
	if cfg.sibling {
		drv.Catch(func() { runSibling(w, cfg, ok) })
	}
	return p, nil
}

// runSibling builds ANOTHER relying party in the same process after the one under test - same
// constructor kind, same cookie keys, the opposite PKCE setting, another client, an OP that
// announces other code challenge methods - and lets it start one login.  Relying parties are
// independent values: nothing of this may show in the RP under test.
func runSibling(w *world, cfg config, ok opKeys) {
	doc := docSpec{issuer: "https://sibling.example", token: "https://sibling.example/token", jwks: "https://sibling.example/keys"}
	methods := []string{"plain"}
	if !cfg.pkce {
		methods = []string{"S256"}
	}
	doc.fields = map[string]any{"issuer": doc.issuer, "authorization_endpoint": "https://sibling.example/auth", "token_endpoint": doc.token,
		"jwks_uri": doc.jwks, "code_challenge_methods_supported": methods, "scopes_supported": []string{"sibling"}}
	rt := &fakeRT{client: "sibling", signer: ok.signer, jwks: ok.jwks, doc: &doc}
	ch := httphelper.NewCookieHandler(w.keys[0][0], w.keys[0][1])
	opts := []rp.Option{rp.WithHTTPClient(&http.Client{Transport: rt})}
	if cfg.pkce {
		opts = append(opts, rp.WithCookieHandler(ch))
	} else {
		opts = append(opts, rp.WithPKCE(ch))
	}
	var sib rp.RelyingParty
	var err error
	if cfg.ctor == "oidc" {
		sib, err = rp.NewRelyingPartyOIDC(context.Background(), doc.issuer, "sibling", "s", "https://sibling.example/cb", []string{"sibling"}, opts...)
	} else {
		sib, err = rp.NewRelyingPartyOAuth(&oauth2.Config{ClientID: "sibling", RedirectURL: "https://sibling.example/cb", Scopes: []string{"sibling"},
			Endpoint: oauth2.Endpoint{AuthURL: "https://sibling.example/auth", TokenURL: doc.token}}, opts...)
	}
	if err != nil {
		return
	}
	rp.AuthURLHandler(func() string { return "sibling-state" }, sib, rp.WithURLParam("sibling", "1")).
		ServeHTTP(httptest.NewRecorder(), httptest.NewRequest("GET", "https://sibling.example/login", nil))
}

func attach(req *http.Request, j jar) {
	for _, e := range j {
		req.AddCookie(&http.Cookie{Name: e.name, Value: e.raw})
	}
}

type cmd struct {
	name string
	del  bool
	e    entry
}

func (p *party) cookieCmds(res *http.Response) ([]cmd, string) {
	var cs []cmd
	var items []string
	for _, c := range res.Cookies() {
		if c.MaxAge < 0 {
			cs = append(cs, cmd{name: c.Name, del: true})
			items = append(items, emit.Pair(emit.Str(c.Name), emit.None))
			continue
		}
		e := entry{name: c.Name, raw: c.Value, sym: p.w.classify(c.Name, c.Value)}
		cs = append(cs, cmd{name: c.Name, e: e})
		items = append(items, emit.Pair(emit.Str(c.Name), emit.Some(e.sym.coq())))
	}
	return cs, emit.List(items)
}

func apply(j jar, cs []cmd) jar {
	for _, c := range cs {
		if c.del {
			j = j.del(c.name)
		} else {
			j = j.set(c.e)
		}
	}
	return j
}

// ---------- operations ----------

type op struct {
	kind  string // start | callback | set | del | api (name = which call)
	state string // start
	q     [][2]string
	post  bool
	cq    cbq // when set: replaces q (and post)
	tokOK bool
	apply bool
	during []op  // start / callback: operations that run re-entrantly inside this request (see runner)
	e     entry  // set (resolved while running when setKind >= 0)
	setKind int
	name  string // del
}

func pairs(q [][2]string) string {
	var items []string
	for _, kv := range q {
		items = append(items, emit.Pair(emit.Str(kv[0]), emit.Str(kv[1])))
	}
	return emit.List(items)
}

func encodeQuery(q [][2]string) string {
	var parts []string
	for _, kv := range q {
		parts = append(parts, url.QueryEscape(kv[0])+"="+url.QueryEscape(kv[1]))
	}
	return strings.Join(parts, "&")
}

type result struct {
	opsCoq, evsCoq []string
	htab           map[string]string
	panicked       bool
	human          []map[string]any
}

// resolveSet picks the cookie a "set" operation writes, from the jar and from
// what the RP minted so far.  Kinds 0-5 are never acceptable to the RP.
func resolveSet(r drv.Rand, w *world, kind int, j jar, minted []entry) entry {
	junk := func(name string) entry {
		return tamper(r, entry{name: name, sym: cval{label: "none"}}, 2)
	}
	switch kind {
	case 1:
		return w.mint(w.foreign(r), drv.Pick(r, []string{"state", "pkce"}), drv.Pick(r, statePool))
	case 2:
		if e, ok := j.get("state"); ok {
			e.name = "pkce"
			return e
		}
	case 3:
		if e, ok := j.get("pkce"); ok {
			e.name = "state"
			return e
		}
	case 4:
		if e, ok := j.get(drv.Pick(r, []string{"state", "pkce"})); ok && e.raw != "" {
			return tamper(r, e, r.IntN(4))
		}
	case 5:
		return junk("session")
	case 8: // the state cookie of the first login
		for _, e := range minted {
			if e.name == "state" {
				return e
			}
		}
	case 6, 7:
		name := "state"
		if kind == 7 {
			name = "pkce"
		}
		var cands []entry
		for _, e := range minted {
			if e.name == name {
				cands = append(cands, e)
			}
		}
		if len(cands) > 0 {
			return drv.Pick(r, cands)
		}
	}
	return junk(drv.Pick(r, []string{"state", "pkce"}))
}

// runner executes a history against the real handlers.  An operation may carry
// `during` operations: they are executed RE-ENTRANTLY, on the same handler
// values, while the outer request evaluates its URL / token-request options
// (i.e. after the outer login has set its cookies and computed its challenge,
// or after the outer callback has read its cookies and before it calls the
// token endpoint).  No threads: nothing can hang.
type runner struct {
	p      *party
	r      drv.Rand
	j      jar
	minted []entry
	res    result
}

func (p *party) runOps(r drv.Rand, j jar, ops []op) result {
	x := &runner{p: p, r: r, j: j, res: result{htab: map[string]string{}}}
	if pn := drv.Catch(func() {
		for _, o := range ops {
			x.exec(o)
		}
	}); pn != "" {
		x.res.panicked = true
	}
	return x.res
}

func (x *runner) emit(opCoq, evCoq string, human map[string]any) int {
	x.res.opsCoq = append(x.res.opsCoq, opCoq)
	x.res.evsCoq = append(x.res.evsCoq, evCoq)
	x.res.human = append(x.res.human, human)
	return len(x.res.opsCoq) - 1
}

// isolated runs one request with its own handler / token-request records
func (x *runner) isolated(tokOK bool, f func()) (called []string, reqs []tokreq) {
	p := x.p
	sc, sr, sok, sdrop := p.called, p.rt.reqs, p.rt.ok, p.rt.dropID
	p.called, p.rt.reqs, p.rt.ok, p.rt.dropID = nil, nil, tokOK, false
	if p.cfg.ctor == "oidc" && !tokOK && x.r.Chance(1, 3) {
		// an OIDC RP must also refuse a token response without id_token: same outcome as a refusing endpoint
		p.rt.ok, p.rt.dropID = true, true
	}
	defer func() { p.called, p.rt.reqs, p.rt.ok, p.rt.dropID = sc, sr, sok, sdrop }()
	f()
	return p.called, p.rt.reqs
}

// arm makes the re-entrant option run the `during` operations once; it reports whether they ran inside the window
func (x *runner) arm(during []op) (ranInside *bool) {
	ran := false
	if len(during) == 0 {
		return &ran
	}
	saved := x.p.nest
	x.p.nest = func() {
		ran = true
		x.p.nest = nil
		for _, d := range during {
			d.during = nil
			x.exec(d)
		}
		x.p.nest = saved
	}
	return &ran
}

func (x *runner) exec(o op) {
	p := x.p
	if o.kind == "set" && o.setKind >= 0 {
		o.e = resolveSet(x.r, p.w, o.setKind, x.j, x.minted)
	}
	switch o.kind {
	case "start":
		// can the cookie hold this state at all? (securecookie length limit; the real Encode decides)
		encodable := p.w.twin[0].SetCookie(httptest.NewRecorder(), "state", o.state) == nil
		p.states = append([]string{o.state}, p.states...)
		// the login request itself is input: a third of the logins come from a link / form that
		// carries parameters of its own (a crafted login link)
		lq, lpost := loginQuery(x.r, o.state)
		req := httptest.NewRequest("GET", "https://rp.example/login", nil)
		switch {
		case len(lq) > 0 && lpost:
			req = httptest.NewRequest("POST", "https://rp.example/login", strings.NewReader(encodeQuery(lq)))
			req.Header.Set("Content-Type", "application/x-www-form-urlencoded")
		case len(lq) > 0:
			req = httptest.NewRequest("GET", "https://rp.example/login?"+encodeQuery(lq), nil)
		}
		attach(req, x.j)
		rec := httptest.NewRecorder()
		ran := x.arm(o.during)
		called, _ := x.isolated(true, func() { p.login.ServeHTTP(rec, req) })
		if !*ran && len(o.during) > 0 { // the window never opened: the browser does them afterwards
			p.nest = nil
			for _, d := range o.during {
				d.during = nil
				x.exec(d)
			}
		}
		hr := rec.Result()
		cs, csCoq := p.cookieCmds(hr)
		verifier := ""
		for _, c := range cs {
			if !c.del && c.name == "pkce" && c.e.sym.mac {
				verifier = c.e.sym.value
				x.res.htab[verifier] = s256(verifier)
			}
		}
		opCoq := emit.Ctor("OStart", emit.Str(o.state), emit.Str(verifier))
		if len(lq) > 0 {
			opCoq = emit.Ctor("OStartQ", emit.Str(o.state), emit.Str(verifier), pairs(lq))
		}
		if !encodable {
			opCoq = emit.Ctor("OStartFail", emit.Str(o.state))
		}
		loc := hr.Header.Get("Location")
		var evCoq string
		if hr.StatusCode != http.StatusFound || len(called) > 0 || loc == "" {
			evCoq = "EvOther"
			if len(cs) > 0 { // no redirect but cookies: not a behaviour the model has
				evCoq = emit.Ctor("EvAuth", csCoq, emit.Str("<no-redirect>"), "[]")
			}
		} else {
			base, rawq, _ := strings.Cut(loc, "?")
			vals, err := url.ParseQuery(rawq)
			var ps [][2]string
			if err != nil {
				ps = append(ps, [2]string{"<unparsable>", rawq})
			}
			keys := make([]string, 0, len(vals))
			for k := range vals {
				keys = append(keys, k)
			}
			sort.Strings(keys)
			for _, k := range keys {
				for _, v := range vals[k] {
					ps = append(ps, [2]string{k, v})
				}
			}
			evCoq = emit.Ctor("EvAuth", csCoq, emit.Str(base), pairs(ps))
		}
		// a login reads nothing from the jar: its operation is listed when its response arrives,
		// i.e. after the operations that ran during it
		x.emit(opCoq, evCoq, map[string]any{"op": "start", "login_query": clipQ(lq), "login_post": lpost, "overlapped_by": len(o.during), "state_len": len(o.state), "state": clip(o.state), "location": clip(loc)})
		for _, c := range cs {
			if !c.del {
				x.minted = append(x.minted, c.e)
			}
		}
		x.j = apply(x.j, cs)
	case "callback":
		var req *http.Request
		if o.cq.q != nil {
			o.q = o.cq.q
		}
		form := o.q
		switch {
		case o.cq.nbody > 0: // leading parameters in the body, the rest in the URL
			nb := o.cq.nbody
			req = httptest.NewRequest("POST", "https://rp.example/cb?"+encodeQuery(o.q[nb:]), strings.NewReader(encodeQuery(o.q[:nb])))
			req.Header.Set("Content-Type", "application/x-www-form-urlencoded")
			o.post = true
		case o.post:
			// half of the parameters in the body, all of them in the URL: body values win
			half := o.q[:(len(o.q)+1)/2]
			req = httptest.NewRequest("POST", "https://rp.example/cb?"+encodeQuery(o.q), strings.NewReader(encodeQuery(half)))
			req.Header.Set("Content-Type", "application/x-www-form-urlencoded")
			form = append(append([][2]string{}, half...), o.q...)
		default:
			req = httptest.NewRequest("GET", "https://rp.example/cb?"+encodeQuery(o.q), nil)
		}
		attach(req, x.j) // the request carries the jar as it is NOW
		// the callback is listed at the time its request left the browser
		late := len(o.during) > 0
		idx := x.emit("", "", nil)
		rec := httptest.NewRecorder()
		ran := x.arm(o.during)
		called, treqs := x.isolated(o.tokOK, func() { p.cb.ServeHTTP(rec, req) })
		if !*ran && late {
			p.nest = nil
			for _, d := range o.during {
				d.during = nil
				x.exec(d)
			}
		}
		cs, csCoq := p.cookieCmds(rec.Result())
		h := "HOther"
		if len(called) == 1 {
			h = called[0]
		}
		var reqs []string
		for _, t := range treqs {
			reqs = append(reqs, t.coq())
			if t.verifier != nil { // whatever verifier is sent: its independent S256 hash is what the redirect must have carried
				x.res.htab[*t.verifier] = s256(*t.verifier)
			}
		}
		applyNow := o.apply && !late
		x.res.opsCoq[idx] = emit.Ctor("OCallback", pairs(form), emit.Bool(o.tokOK), emit.Bool(applyNow))
		x.res.evsCoq[idx] = emit.Ctor("EvCb", h, emit.List(reqs), csCoq)
		x.res.human[idx] = map[string]any{"op": "callback", "overlapped_by": len(o.during), "ran_inside": *ran, "query": clipQ(o.q), "post": o.post, "handlers": len(called), "token_requests": len(treqs)}
		if applyNow {
			x.j = apply(x.j, cs)
		} else if o.apply { // the response arrives after the operations that ran during the request
			for _, c := range cs {
				if c.del {
					x.emit(emit.Ctor("ODel", emit.Str(c.name)), "EvNone", map[string]any{"op": "late-delete", "name": c.name})
					x.j = x.j.del(c.name)
				} else {
					x.emit(emit.Ctor("OSet", emit.Str(c.name), c.e.sym.coq()), "EvNone", map[string]any{"op": "late-set", "name": c.name})
					x.j = x.j.set(c.e)
				}
			}
		}
	case "api":
		// another API call on the same RP value; afterwards rp.AuthURL must still render the configured values
		x.isolated(true, func() { drv.Catch(func() { p.callAPI(o.name) }) })
		var loc string
		if pn := drv.Catch(func() { loc = rp.AuthURL("probe-state", p.rp) }); pn != "" {
			panic(pn)
		}
		base, rawq, _ := strings.Cut(loc, "?")
		ps := sortedParams(rawq)
		if strings.Join(p.callerScopes, "\x00") != strings.Join(p.cfg.scopes, "\x00") || len(p.callerScopes) != len(p.cfg.scopes) {
			ps = append(ps, [2]string{"<caller-scopes-slice-changed>", strings.Join(p.callerScopes, " ")})
		}
		x.emit(emit.Ctor("OApi", emit.Str(o.name)), emit.Ctor("EvProbe", emit.Str(base), pairs(ps)),
			map[string]any{"op": "api", "call": o.name, "probe": clip(loc), "caller_scopes": strings.Join(p.callerScopes, " ")})
	case "set":
		x.emit(emit.Ctor("OSet", emit.Str(o.e.name), o.e.sym.coq()), "EvNone", map[string]any{"op": "set", "name": o.e.name, "value": clip(o.e.sym.describe())})
		x.j = x.j.set(o.e)
	case "del":
		x.emit(emit.Ctor("ODel", emit.Str(o.name)), "EvNone", map[string]any{"op": "del", "name": o.name})
		x.j = x.j.del(o.name)
	}
}

// loginQuery: the parameters on the request that hits AuthURLHandler.  Every parameter of the
// authorization request that the RP mints or configures (challenge, method, state, client,
// redirect URI, scope, response type), harmless ones a login link legitimately carries, unknown
// ones, case variants, repeated ones, several at once; in the URL or as a POST form.
func loginQuery(r drv.Rand, state string) (q [][2]string, post bool) {
	if !r.Chance(1, 3) {
		return nil, false
	}
	pool := [][][2]string{
		{{"code_challenge", "attacker-chosen-challenge"}, {"code_challenge_method", "plain"}},
		{{"code_challenge", "E9Melhoa2OwvFrEMTJguCHaoeK1t8URWbuGJSstw-cM"}, {"code_challenge_method", "S256"}},
		{{"code_challenge", "attacker-chosen-challenge"}},
		{{"code_challenge_method", "plain"}},
		{{"code_challenge", ""}, {"code_challenge_method", ""}},
		{{"code_challenge", "a"}, {"code_challenge", "b"}, {"code_challenge_method", "plain"}, {"code_challenge_method", "S256"}},
		{{"Code_Challenge", "x"}, {"CODE_CHALLENGE_METHOD", "plain"}, {"code_challenge ", "y"}},
		{{"state", "evil-state"}}, {{"state", state}, {"state", "evil-state"}}, {{"state", ""}},
		{{"client_id", "evil-client"}}, {{"redirect_uri", "https://evil.example/cb"}}, {{"scope", "admin offline_access"}},
		{{"response_type", "token"}}, {{"response_type", "code id_token"}, {"response_mode", "fragment"}},
		{{"nonce", "n-0S6_WzA2Mj"}}, {{"prompt", "none"}}, {{"login_hint", "alice@example.com"}, {"ui_locales", "de fr"}},
		{{"requestID", "1234"}}, {{"utm_source", "mail"}, {"x", ""}}, {{"request", "eyJhbGciOiJub25lIn0.e30."}}, {{"request_uri", "https://evil.example/r"}},
		{{"code_verifier", "attacker-verifier"}}, {{"pkce", "off"}}, {{"code", "c"}, {"error", "access_denied"}},
	}
	q = append(q, drv.Pick(r, pool)...)
	if r.Chance(1, 3) {
		q = append(q, drv.Pick(r, pool)...)
	}
	if r.Chance(1, 4) {
		q = append(q, drv.Pick(r, pool)...)
	}
	return q, r.Chance(1, 4)
}

func sortedParams(rawq string) [][2]string {
	vals, err := url.ParseQuery(rawq)
	var ps [][2]string
	if err != nil {
		ps = append(ps, [2]string{"<unparsable>", rawq})
	}
	keys := make([]string, 0, len(vals))
	for k := range vals {
		keys = append(keys, k)
	}
	sort.Strings(keys)
	for _, k := range keys {
		for _, v := range vals[k] {
			ps = append(ps, [2]string{k, v})
		}
	}
	return ps
}

// apiCalls: what else an application does with its RelyingParty value.  Results and errors
// are irrelevant (an RP built by NewRelyingPartyOAuth lacks most endpoints): the point is
// that the call happened on THIS RP before the next login.
var apiCalls = []string{"ClientCredentials", "ClientCredentials", "RefreshTokens", "Userinfo", "EndSession", "RevokeToken",
	"DeviceAuthorization", "DeviceAuthorizationOwnScopes", "CodeExchange", "GenerateAndStoreCodeChallenge",
	"AuthURLWithOptions", "JWTProfileAssertion", "ClientCredentialsTwice"}

func (p *party) callAPI(name string) {
	ctx, cancel := context.WithTimeout(context.Background(), 2*time.Second)
	defer cancel()
	switch name {
	case "ClientCredentials":
		rp.ClientCredentials(ctx, p.rp, url.Values{"audience": {"https://api.example"}})
	case "ClientCredentialsTwice":
		rp.ClientCredentials(ctx, p.rp, nil)
		rp.ClientCredentials(ctx, p.rp, nil)
	case "RefreshTokens":
		rp.RefreshTokens[*oidc.IDTokenClaims](ctx, p.rp, "refresh-token-1", "", "")
	case "Userinfo":
		rp.Userinfo[*oidc.UserInfo](ctx, "at", "Bearer", "user-1", p.rp)
	case "EndSession":
		rp.EndSession(ctx, p.rp, "id-token-hint", "https://rp.example/bye", "bye-state")
	case "RevokeToken":
		rp.RevokeToken(ctx, p.rp, "refresh-token-1", "refresh_token")
	case "DeviceAuthorization": // with the RP's own scopes slice, as an application would
		rp.DeviceAuthorization(ctx, p.rp.OAuthConfig().Scopes, p.rp, nil)
	case "DeviceAuthorizationOwnScopes":
		rp.DeviceAuthorization(ctx, []string{"offline_access", "openid"}, p.rp, nil)
	case "CodeExchange":
		rp.CodeExchange[*oidc.IDTokenClaims](ctx, "direct-code", p.rp, rp.WithCodeVerifier("direct-verifier"))
	case "GenerateAndStoreCodeChallenge": // into a response nobody sends
		rp.GenerateAndStoreCodeChallenge(httptest.NewRecorder(), p.rp)
	case "AuthURLWithOptions":
		_ = rp.AuthURL("other-state", p.rp, rp.WithPrompt("login", "consent"), rp.WithCodeChallenge("someone-elses-challenge"),
			rp.AuthURLOpt(rp.WithURLParam("scope", "other scopes")), rp.AuthURLOpt(rp.WithURLParam("client_id", "other-client")))
	case "JWTProfileAssertion":
		if s := p.rp.Signer(); s != nil {
			client.SignedJWTProfileAssertion(p.rp.OAuthConfig().ClientID, []string{p.rp.Issuer()}, time.Hour, s)
		}
	}
}

func clip(s string) string {
	if len(s) > 120 {
		return fmt.Sprintf("%s...(%d bytes)", s[:100], len(s))
	}
	return s
}

func clipQ(q [][2]string) [][2]string {
	var out [][2]string
	for _, kv := range q {
		out = append(out, [2]string{kv[0], clip(kv[1])})
	}
	return out
}

// ---------- generators ----------

var statePool = []string{"", "st-1", "st-2", "st-3", "a b&c=d", "Zm9v.YmFy-_~", "säöü%20", "x", "0123456789abcdef0123456789abcdef", strings.Repeat("long", 40),
	"st-1", "st-2", "st-3", "Kst-sk", // (weight on the short tokens; one with letters that have Unicode case-folding partners)
	// keyword-like literals and states that themselves carry white space / a trailing slash / upper case
	"null", "undefined", "0", "false", "[]", "{}", "st-1 ", " st-1", "st-1/", "ST-1", "st-1\n", "st+1"}

// oddCodes: authorization codes that look like keywords, are empty, carry separators, or are long
var oddCodes = []string{"", "null", "undefined", "0", "false", "[]", "a b+c%2F&d=e", " code-1", "code-1 ", strings.Repeat("c0de", 300), strings.Repeat("LongCode", 530)}


// ---- the constructor dimension ----

// what an OP may announce as code_challenge_methods_supported (nil entry = member absent;
// "null" = the JSON literal): S256 alone, with others, in other spellings, not at all
var methodVariants = []struct {
	tag string
	val any
}{
	{"absent", struct{}{}}, {"S256", []string{"S256"}}, {"plain", []string{"plain"}}, {"empty", []string{}},
	{"plain+S256", []string{"plain", "S256"}}, {"s256-lower", []string{"s256"}}, {"S512", []string{"S512"}},
	{"null", nil}, {"S256+plain", []string{"S256", "plain"}}, {"S256-trailing-space", []string{"S256 "}},
	{"sha256-names", []string{"SHA256", "sha-256"}}, {"emptystring", []string{""}}, {"plain+s256-lower", []string{"plain", "s256"}},
	{"S256-twice", []string{"S256", "S256"}}, {"none", []string{"none"}}, {"unknown-many", []string{"S384", "S512", "plain", "ES256"}},
	{"S256-leading-space", []string{" S256"}}, {"S256-kelvin-free-case", []string{"S256", "s256"}},
}

func setMember(fields map[string]any, key string, v any) {
	if _, absent := v.(struct{}); absent {
		return
	}
	fields[key] = v
}

// genDoc: the discovery document of the mock OP.  Everything an OP may announce that a
// client could be tempted to "negotiate" on is varied: code challenge methods, scopes
// (relative to the configured ones), response types, grant types, token endpoint
// authentication methods, response modes; plus members the library does not know.
func genDoc(r drv.Rand, c *config, methodIdx int) (tags []string) {
	issuer := drv.Pick(r, []string{"https://op.example", "https://op.example", "https://op.example/realms/a", "https://login.op.example/"})
	base := strings.TrimSuffix(issuer, "/")
	d := docSpec{issuer: issuer, token: base + "/oauth/token", jwks: base + "/keys", fields: map[string]any{}}
	f := d.fields
	f["issuer"] = issuer
	f["authorization_endpoint"] = c.auth
	f["token_endpoint"] = d.token
	f["jwks_uri"] = d.jwks
	f["userinfo_endpoint"] = base + "/userinfo"
	f["revocation_endpoint"] = base + "/revoke"
	f["end_session_endpoint"] = base + "/end_session"
	f["device_authorization_endpoint"] = base + "/device_authorization"
	f["subject_types_supported"] = []string{"public"}
	absent := struct{}{}
	mv := methodVariants[methodIdx%len(methodVariants)]
	setMember(f, "code_challenge_methods_supported", mv.val)
	tags = append(tags, "methods="+mv.tag)
	upper := func(l []string) []string {
		out := []string{}
		for _, x := range l {
			out = append(out, strings.ToUpper(x))
		}
		return out
	}
	var subset []string
	if len(c.scopes) > 1 {
		subset = c.scopes[:1]
	} else {
		subset = []string{}
	}
	sv := r.IntN(8)
	setMember(f, "scopes_supported", []any{absent, append([]string{}, c.scopes...), append(append([]string{}, c.scopes...), "offline_access", "phone"),
		subset, []string{"address"}, upper(c.scopes), []string{}, nil}[sv])
	tags = append(tags, "scopesdoc="+[]string{"absent", "same", "superset", "subset", "disjoint", "uppercase", "empty", "null"}[sv])
	setMember(f, "response_types_supported", drv.Pick(r, []any{absent, []string{"code"}, []string{"code", "id_token", "id_token token"},
		[]string{"id_token"}, []string{"CODE"}, []string{}, nil}))
	setMember(f, "grant_types_supported", drv.Pick(r, []any{absent, []string{"authorization_code", "refresh_token"}, []string{"implicit"},
		[]string{"client_credentials", "urn:ietf:params:oauth:grant-type:jwt-bearer"}, []string{}}))
	setMember(f, "token_endpoint_auth_methods_supported", drv.Pick(r, []any{absent, []string{"client_secret_basic"}, []string{"client_secret_post"},
		[]string{"private_key_jwt"}, []string{"none"}, []string{"client_secret_basic", "client_secret_post", "private_key_jwt"}, []string{}}))
	setMember(f, "response_modes_supported", drv.Pick(r, []any{absent, absent, []string{"query", "fragment"}, []string{"form_post"}}))
	setMember(f, "id_token_signing_alg_values_supported", drv.Pick(r, []any{[]string{"RS256"}, []string{"RS256"}, []string{"ES256", "RS256"}}))
	if r.Chance(1, 3) { // members this library does not know
		f["require_pushed_authorization_requests"] = r.Bool()
		f["pkce_required"] = r.Bool()
		f["authorization_response_iss_parameter_supported"] = true
	}
	if r.Chance(1, 4) {
		f["request_parameter_supported"] = true
		f["claims_parameter_supported"] = r.Bool()
	}
	c.doc = d
	return tags
}

// handler option layouts: the LAST option that sets a cookie handler carries the RP's keys
// (#0); earlier ones may carry a foreign handler.  f = a foreign handler number.
func handlerOpts(r drv.Rand, pkce bool, f int) (opts []optSpec, layout string) {
	ck := func(k int) optSpec { return optSpec{kind: "cookie", k: k} }
	pk := func(k int) optSpec { return optSpec{kind: "pkce", k: k} }
	x := r.IntN(14)
	if pkce {
		switch x {
		case 0:
			return []optSpec{ck(f), pk(0)}, "cookie(foreign);pkce"
		case 1:
			return []optSpec{pk(f), ck(0)}, "pkce(foreign);cookie"
		case 2:
			return []optSpec{pk(0), ck(0)}, "pkce;cookie"
		case 3:
			return []optSpec{pk(f), pk(0)}, "pkce(foreign);pkce"
		case 4:
			return []optSpec{ck(0), pk(0)}, "cookie;pkce"
		case 5:
			return []optSpec{pk(0), ck(f), ck(0)}, "pkce;cookie(foreign);cookie"
		}
		return []optSpec{pk(0)}, "pkce"
	}
	switch x {
	case 0, 1:
		return []optSpec{ck(f), ck(0)}, "cookie(foreign);cookie"
	case 2:
		return []optSpec{ck(0), ck(0)}, "cookie;cookie"
	}
	return []optSpec{ck(0)}, "cookie"
}

var manyScopes = func() []string {
	l := []string{"openid"}
	for i := 0; i < 60; i++ {
		l = append(l, fmt.Sprintf("urn:example:scope:resource-%02d:read", i))
	}
	return l
}()

func genConfig(r drv.Rand, w *world, idx int) (config, []string) {
	c := config{
		pkce:     r.Chance(3, 5),
		jwt:      r.Chance(1, 4),
		client:   drv.Pick(r, []string{"web-client", "web-client", "web-client", "cli ent&1=2", "native/app", "", "null", "Web-Client ", "client-" + strings.Repeat("0123456789", 110)}),
		redirect: drv.Pick(r, []string{"https://rp.example/cb", "https://rp.example/cb", "http://localhost:9999/auth/callback?x=1&y=2", ""}),
		scopes:   drv.Pick(r, [][]string{{"openid"}, {"openid", "profile", "email"}, {"openid"}, {"openid", "profile", "email"}, {}, {"a+b", "c d"}, {"openid", "OpenID", "openid"}, manyScopes,
			// offline_access / openid at every position (a helper that filters or reorders "special" scopes in place would show)
			{"openid", "offline_access", "profile", "email"}, {"offline_access", "openid", "profile"}, {"openid", "profile", "offline_access", "email"},
			{"openid", "profile", "email", "offline_access"}, {"offline_access"}, {"profile", "openid"}, {"profile", "email", "openid"},
			{"offline_access", "offline_access", "openid"}, {"openid", "offline_access"}, {"email", "openid", "offline_access", "profile", "address", "phone"}}),
		auth:     drv.Pick(r, []string{"https://op.example/authorize", "https://op.example/oauth/v2/authorize"}),
		style:    drv.Pick(r, []oauth2.AuthStyle{oauth2.AuthStyleInParams, oauth2.AuthStyleInParams, oauth2.AuthStyleInHeader}),
	}
	switch r.IntN(10) {
	case 0, 1:
		c.extra = [][2]string{{"prompt", "login"}}
	case 2:
		c.extra = [][2]string{{"response_mode", "form_post"}, {"foo", "b a&r"}}
	case 3:
		c.extra = [][2]string{{"foo", "1"}, {"foo", "2"}}
	case 4: // overrides what the handler sets (spec: extra_ok = false)
		c.extra = [][2]string{drv.Pick(r, [][2]string{{"state", "forced"}, {"client_id", "other"}, {"scope", "all"}, {"redirect_uri", "https://x.example/"}})}
	case 5:
		c.extra = [][2]string{{"code_challenge", "mine"}, {"code_challenge_method", "plain"}}
	case 6: // response_mode, also several times (the last one counts) and next to other options
		c.extra = [][2]string{{"response_mode", drv.Pick(r, []string{"query", "fragment", "form_post", "", "query.jwt", "Form_Post"})}}
		if r.Bool() {
			c.extra = append(c.extra, drv.Pick(r, [][2]string{{"prompt", "none"}, {"prompt", "login consent"}, {"prompt", ""}, {"response_mode", "form_post"}, {"foo", "1"}}))
		}
		if r.Chance(1, 3) {
			c.extra = append([][2]string{{"response_mode", "fragment"}}, c.extra...)
		}
	}
	// response_mode / prompt: through the option's own constructor or through WithURLParam
	for _, kv := range c.extra {
		c.extraTyped = append(c.extraTyped, (kv[0] == "response_mode" || kv[0] == "prompt") && r.Chance(2, 3))
	}
	return c, nil
}

// finishConfig: constructor, discovery document and option list (after the case kind has
// had its say on pkce)
func finishConfig(r drv.Rand, w *world, c *config, idx int) (tags []string) {
	c.ctor = "oauth"
	if idx%9 >= 5 { // 4 of 9 cases use the discovery constructor; the methods variant cycles
		c.ctor = "oidc"
		mi := idx/9*4 + idx%9 - 5
		if r.Chance(1, 3) {
			mi = r.IntN(len(methodVariants))
		}
		tags = append(tags, genDoc(r, c, mi)...)
	}
	tags = append(tags, "ctor="+c.ctor)
	c.sibling = r.Chance(1, 4)
	tags = append(tags, fmt.Sprintf("sibling=%v", c.sibling))
	hs, layout := handlerOpts(r, c.pkce, w.foreign(r))
	tags = append(tags, "opts="+layout)
	neutral := []string{"WithHTTPClient", "WithAuthStyle", "WithUnauthorizedHandler", "WithErrorHandler"}
	if r.Chance(1, 5) {
		neutral = append(neutral, "WithLogger")
	}
	if c.ctor == "oidc" {
		if r.Chance(1, 3) {
			neutral = append(neutral, "WithSigningAlgsFromDiscovery")
		}
		if r.Chance(1, 5) {
			neutral = append(neutral, "WithVerifierOpts")
		}
		if r.Chance(1, 6) {
			c.doc.customURL = "https://meta.example/custom/openid-configuration"
			neutral = append(neutral, "WithCustomDiscoveryUrl")
		}
	}
	if c.jwt {
		hs = append(hs, optSpec{})
		at := r.IntN(len(hs))
		copy(hs[at+1:], hs[at:])
		hs[at] = optSpec{kind: "jwt"}
	}
	// the neutral options go to random places; the order of the others is kept
	c.opts = hs
	for _, n := range neutral {
		at := r.IntN(len(c.opts) + 1)
		c.opts = append(c.opts, optSpec{})
		copy(c.opts[at+1:], c.opts[at:])
		c.opts[at] = optSpec{kind: "neutral", name: n}
	}
	return tags
}

// pickState: what the application's state generator returns.  Short tokens, empty,
// non-ASCII, data-carrying long states around 256 bytes and beyond (sharing long
// prefixes with each other), and states the cookie cannot hold (> securecookie's limit).
func pickState(r drv.Rand) string {
	switch x := r.IntN(20); {
	case x < 13:
		return drv.Pick(r, statePool)
	case x < 19:
		n := drv.Pick(r, []int{255, 256, 256, 257, 257, 258, 300, 300, 511, 511, 1000, 2000})
		tag := drv.Pick(r, []string{"-A", "-B", "-C", "é"})
		base := "nonce=123&return=" + strings.Repeat("/path/segment", 400)
		return base[:n-len(tag)] + tag
	default:
		return strings.Repeat("0123456789abcdef", drv.Pick(r, []int{160, 260})) // 2560 / 4160 bytes: Encode fails
	}
}

// nearMiss: a callback state that almost equals s
func nearMiss(r drv.Rand, s string) string {
	var c []string
	c = append(c, s+"x", "")
	// values a "normalising" comparison would accept: surrounding white space (also as it
	// would look if somebody decoded twice), trailing slash, Unicode case folding partners
	c = append(c, s+" ", " "+s, s+"\t", s+"\n", s+"\r\n", s+"/", s+"%20", s+"+", s+"\x00",
		strings.TrimSuffix(s, "/"), strings.TrimSpace(s),
		strings.NewReplacer("s", "\u017f", "k", "\u212a", "K", "\u212a", "S", "\u017f").Replace(s))
	if len(s) > 0 {
		c = append(c, s[:len(s)-1], s[1:], strings.ToUpper(s), strings.ToLower(s))
		b := []byte(s)
		b[len(b)-1] ^= 1
		c = append(c, string(b))
		b = []byte(s)
		b[len(b)/2] ^= 2
		c = append(c, string(b))
	}
	for _, n := range []int{255, 256, 257, 128, 64} {
		if len(s) > n {
			c = append(c, s[:n], s[:n]+"tampered")
			b := []byte(s)
			b[n+r.IntN(len(s)-n)] ^= 4
			c = append(c, string(b))
		}
	}
	for i := 0; i < 8; i++ {
		if v := drv.Pick(r, c); v != s {
			return v
		}
	}
	return s + "x"
}

// cbq is the shape of a callback request: the parameters in r.FormValue order
// (body first), and how many of the leading ones travel in a POST body
// (0 = plain GET unless the operation says post).
type cbq struct {
	q     [][2]string
	nbody int
}

// callbackQuery: query shapes as a dimension - state present / ABSENT / empty /
// duplicated (same or different values, first or last one matching) / in the POST
// body vs. the URL, with and without code and error parameters.
func callbackQuery(r drv.Rand, state string, code string) cbq {
	if r.Chance(1, 5) {
		state = nearMiss(r, state)
	}
	if r.Chance(1, 8) {
		code = drv.Pick(r, oddCodes)
	}
	other := "other-" + state
	q := [][2]string{{"code", code}, {"state", state}}
	nbody := 0
	switch r.IntN(24) {
	case 0:
		q = [][2]string{{"state", state}, {"error", "access_denied"}, {"error_description", "user said no"}}
	case 1:
		q = [][2]string{{"error", "server_error"}, {"state", state}, {"code", code}}
	case 2: // duplicate state, the first one is the login's
		q = append(q, [2]string{"state", other})
	case 3:
		q = [][2]string{{"state", state}} // no code
	case 4:
		q = append([][2]string{{"error", ""}}, q...)
	case 5, 6: // no state parameter at all
		q = [][2]string{{"code", code}}
	case 7: // no state parameter, error response
		q = [][2]string{{"error", "access_denied"}}
	case 8: // duplicate state, the last one is the login's
		q = [][2]string{{"state", other}, {"code", code}, {"state", state}}
	case 9: // the same state twice
		q = [][2]string{{"state", state}, {"state", state}, {"code", code}}
	case 10: // an empty state parameter before the login's
		q = [][2]string{{"state", ""}, {"state", state}, {"code", code}}
	case 11: // the login's state before an empty one
		q = [][2]string{{"state", state}, {"state", ""}, {"code", code}}
	case 12: // body carries the login's state, URL another one
		q, nbody = [][2]string{{"state", state}, {"code", code}, {"state", other}}, 1
	case 13: // body carries another state, URL the login's
		q, nbody = [][2]string{{"state", other}, {"code", code}, {"state", state}}, 1
	case 14: // code in the body, state in the URL
		q, nbody = [][2]string{{"code", code}, {"state", state}}, 1
	case 15: // everything in the body
		q, nbody = [][2]string{{"code", code}, {"state", state}}, 2
	case 16: // body without state, URL without state
		q, nbody = [][2]string{{"code", code}, {"foo", "bar"}}, 1
	}
	return cbq{q: q, nbody: nbody}
}

// all interleavings of n logins S_i and their callbacks C_i with S_i before C_i
func orderings(n int) [][]int { // +i = start i (1-based), -i = callback i
	var out [][]int
	var rec func(cur []int, started, done []bool)
	rec = func(cur []int, started, done []bool) {
		if len(cur) == 2*n {
			out = append(out, append([]int{}, cur...))
			return
		}
		for i := 0; i < n; i++ {
			if !started[i] {
				started[i] = true
				rec(append(cur, i+1), started, done)
				started[i] = false
			} else if !done[i] {
				done[i] = true
				rec(append(cur, -(i + 1)), started, done)
				done[i] = false
			}
		}
	}
	rec(nil, make([]bool, n), make([]bool, n))
	return out
}

func main() {
	cfg := drv.Parse()
	r := drv.NewRand(cfg.Seed)
	shard := 0 // quick: default sharding; thorough: small shards (long states make big terms, ~5 MB of coqc heap per case)
	if !cfg.Quick {
		shard = 120
	}
	w := emit.NewWriter(cfg.Out, "C17_spec", shard, cfg.Only)
	n := cfg.Count(420, 6000)

	// deterministic verifiers: uuid.New() reads from the driver's PRNG
	uuid.SetRand(readerFunc(func(b []byte) (int, error) { copy(b, r.Bytes(len(b))); return len(b), nil }))
	rsaKey, err := rsa.GenerateKey(rand.Reader, 2048)
	if err != nil {
		fmt.Fprintln(os.Stderr, err)
		os.Exit(2)
	}
	pemKey := pem.EncodeToMemory(&pem.Block{Type: "RSA PRIVATE KEY", Bytes: x509.MarshalPKCS1PrivateKey(rsaKey)})
	opKey, err := rsa.GenerateKey(rand.Reader, 2048)
	if err != nil {
		fmt.Fprintln(os.Stderr, err)
		os.Exit(2)
	}
	opk := newOPKeys(opKey)

	ord2, ord3 := orderings(2), orderings(3)
	ordIdx := 0
	dropped := 0

	for i := 0; i < n; i++ {
		wd := newWorld(r)
		c, _ := genConfig(r, wd, i)
		kind := i % 12
		if kind >= 10 && r.Chance(5, 6) {
			c.pkce = true
		}
		ctags := finishConfig(r, wd, &c, i)
		tags := append([]string{fmt.Sprintf("pkce=%v", c.pkce), fmt.Sprintf("jwt=%v", c.jwt), "rpkeys=" + wd.modes[0]}, ctags...)
		var p *party
		var err error
		if pn := drv.Catch(func() { p, err = newParty(wd, c, pemKey, opk) }); pn != "" || err != nil {
			// the constructor refused (or panicked on) a configuration the model builds an RP for
			obs := "ONoRP"
			if pn != "" {
				obs = "OPanic"
			}
			w.Add(emit.Case{Input: emit.Ctor("Inp", c.coq(), "[]", "[]", emit.List([]string{emit.Ctor("OStart", emit.Str("st-1"), emit.Str(""))})),
				Observed: obs, Tags: append(tags, "kind=constructor-failed"),
				Human: map[string]any{"config": fmt.Sprintf("%+v", c), "constructor_error": fmt.Sprint(err), "panic": pn}})
			continue
		}
		var j0 jar
		var ops []op
		switch {
		case kind < 3: // (jar, query) pair: scripted jar, one callback
			tags = append(tags, "kind=pair")
			s := pickState(r)
			if len(s) > 2000 {
				s = s[:2000]
			}
			v := "verifier-" + fmt.Sprint(r.IntN(1000))
			stateE := wd.mint(0, "state", s)
			pkceE := wd.mint(0, "pkce", v)
			sc := r.IntN(18)
			if sc >= 15 {
				sc = 4
			} else if sc >= 12 {
				sc = 0
			}
			fk := wd.foreign(r) // the foreign handler used by this case, if any
			switch sc {
			case 0, 1, 2: // valid and matching
				j0 = j0.set(stateE)
			case 3: // valid, other value
				j0 = j0.set(wd.mint(0, "state", s+"-other"))
			case 4: // minted under other keys
				j0 = j0.set(wd.mint(fk, "state", s))
				tags = append(tags, "foreignkey="+wd.modes[fk])
			case 5: // minted for another name (pkce cookie holding the state; near-miss names), stored as "state"
				e := wd.mint(0, drv.Pick(r, []string{"pkce", "pkce", "State", "STATE", "state_", "stat", "state2", "pkcE"}), s)
				e.name = "state"
				j0 = j0.set(e)
			case 6: // swapped: state cookie under "pkce", pkce cookie under "state"
				a, b := stateE, pkceE
				a.name, b.name = "pkce", "state"
				j0 = append(j0, b)
				pkceE = a
			case 7, 8:
				j0 = j0.set(tamper(r, stateE, r.IntN(4)))
			case 9: // missing
			case 10: // two state cookies, junk first
				j0 = append(j0, tamper(r, stateE, 2), stateE)
			case 11: // two state cookies, valid first
				j0 = append(j0, stateE, wd.mint(fk, "state", s))
			}
			tags = append(tags, fmt.Sprintf("statecookie=%d", sc))
			pc := r.IntN(8)
			switch pc {
			case 0, 1, 2, 3:
				j0 = append(j0.del("pkce"), pkceE)
			case 4:
				j0 = append(j0.del("pkce"), wd.mint(fk, "pkce", v))
				tags = append(tags, "foreignpkcekey="+wd.modes[fk])
			case 5:
				e := wd.mint(0, "state", v)
				e.name = "pkce"
				j0 = append(j0.del("pkce"), e)
			case 6:
				j0 = append(j0.del("pkce"), tamper(r, pkceE, r.IntN(4)))
			case 7:
				if sc != 6 {
					j0 = j0.del("pkce")
				}
			}
			tags = append(tags, fmt.Sprintf("pkcecookie=%d", pc))
			qs := s
			if r.Chance(1, 6) {
				qs = drv.Pick(r, []string{"", s + "x", "st-9", strings.ToUpper(s)})
			}
			ops = []op{{kind: "callback", cq: callbackQuery(r, qs, "code-1"), post: r.Chance(1, 5), tokOK: r.Chance(4, 5), apply: true}}
		case kind < 6: // every ordering of 2 or 3 concurrent logins and their callbacks
			ords := ord2
			if ordIdx%4 == 3 || !cfg.Quick {
				ords = ord3
			}
			if !cfg.Quick && ordIdx%5 == 0 {
				ords = ord2
			}
			ord := ords[ordIdx%len(ords)]
			ordIdx++
			tags = append(tags, "kind=ordering", fmt.Sprintf("logins=%d", len(ord)/2))
			states := []string{"st-1", "st-2", "st-3"}
			if r.Chance(1, 3) {
				states = []string{pickState(r), pickState(r), pickState(r)}
			}
			for _, x := range ord {
				if x > 0 {
					ops = append(ops, op{kind: "start", state: states[x-1]})
				} else {
					ops = append(ops, op{kind: "callback", cq: callbackQuery(r, states[-x-1], fmt.Sprintf("code-%d", -x)),
						post: r.Chance(1, 8), tokOK: r.Chance(5, 6), apply: r.Chance(7, 8)})
				}
			}
		case kind >= 10: // overlapping logins: a second login runs re-entrantly inside the first one's URL rendering
			variant := (i / 12) % 8
			tags = append(tags, "kind=overlap", fmt.Sprintf("overlap=%d", variant))
			st := []string{"st-1", "st-2", "st-3", "st-4"}
			if r.Chance(1, 3) {
				st = []string{pickState(r), pickState(r), "st-3", pickState(r)}
			}
			cb := func(k int) op {
				return op{kind: "callback", cq: callbackQuery(r, st[k], fmt.Sprintf("code-%d", k+1)), post: r.Chance(1, 8), tokOK: r.Chance(5, 6), apply: r.Chance(7, 8)}
			}
			good := func(k int) op { // a callback that is meant to reach the token endpoint
				return op{kind: "callback", q: [][2]string{{"code", fmt.Sprintf("code-%d", k+1)}, {"state", st[k]}}, tokOK: r.Chance(5, 6), apply: true}
			}
			start := func(k int) op { return op{kind: "start", state: st[k]} }
			shuffled := func(ks ...int) []op {
				r.Shuffle(len(ks), func(a, b int) { ks[a], ks[b] = ks[b], ks[a] })
				var out []op
				for _, k := range ks {
					out = append(out, cb(k))
				}
				return out
			}
			with := func(o op, during ...op) op { o.during = during; return o }
			switch variant {
			case 0: // login 1 overlapped by login 2
				ops = append([]op{with(start(0), start(1))}, shuffled(0, 1)...)
			case 1: // login 1, then login 2 overlapped by login 3
				ops = append([]op{start(0), with(start(1), start(2))}, shuffled(0, 1, 2)...)
			case 2:
				ops = []op{with(start(0), start(1)), cb(0), with(start(2), start(3)), cb(2), cb(3)}
			case 3:
				ops = []op{start(0), cb(0), with(start(1), start(2)), cb(1), cb(2)}
			case 4: // callback 1 in flight while login 2 and its callback happen
				ops = []op{start(0), with(good(0), start(1), good(1))}
			case 5: // the same callback twice, overlapping (double submit)
				ops = []op{start(0), with(good(0), good(0))}
			case 6:
				ops = []op{start(0), with(good(0), start(1), cb(1), start(2)), cb(2)}
			default: // a callback arrives while a login is being rendered
				ops = []op{start(0), with(start(1), cb(0)), cb(1)}
			}
		default: // random history; kind 9 also replays old valid cookies (not "honest")
			replay := kind == 9
			if replay {
				tags = append(tags, "kind=replay")
			} else {
				tags = append(tags, "kind=history")
			}
			if replay && r.Bool() {
				// directed: login a, login b, a's state cookie re-inserted next to b's pkce cookie, callback for a
				tags = append(tags, "replay=mixed")
				a, b := "st-1", "st-2"
				ops = []op{{kind: "start", state: a}, {kind: "start", state: b}, {kind: "set", setKind: 8},
					{kind: "callback", q: [][2]string{{"code", "code-a"}, {"state", a}}, tokOK: true, apply: true}}
				break
			}
			var started []string
			m := 3 + r.IntN(6)
			ops = append(ops, op{kind: "start", state: pickState(r)})
			started = append(started, ops[0].state)
			for len(ops) < m {
				switch r.IntN(10) {
				case 0, 1, 2:
					s := pickState(r)
					o := op{kind: "start", state: s}
					if r.Chance(1, 5) { // overlapped by another login
						o.during = []op{{kind: "start", state: pickState(r)}}
						started = append(started, o.during[0].state)
					}
					ops = append(ops, o)
					started = append(started, s)
				case 3, 4, 5, 6:
					s := started[len(started)-1]
					if r.Chance(1, 3) {
						s = drv.Pick(r, started)
					}
					if r.Chance(1, 10) {
						s = "unknown"
					}
					o := op{kind: "callback", cq: callbackQuery(r, s, fmt.Sprintf("code-%d", len(ops))),
						post: r.Chance(1, 8), tokOK: r.Chance(5, 6), apply: r.Chance(5, 6)}
					if r.Chance(1, 6) { // overlapped by another login and its callback
						s2 := pickState(r)
						o.during = []op{{kind: "start", state: s2},
							{kind: "callback", cq: callbackQuery(r, s2, "code-n"), tokOK: r.Chance(5, 6), apply: true}}
						started = append(started, s2)
					}
					ops = append(ops, o)
				case 7:
					ops = append(ops, op{kind: "del", name: drv.Pick(r, []string{"state", "pkce", "other"})})
				default: // resolved while running (needs the jar)
					sk := r.IntN(6)
					if replay && r.Bool() {
						sk = 6 + r.IntN(2)
					}
					ops = append(ops, op{kind: "set", setKind: sk})
				}
			}
		}
		// OTHER API calls on the same RP value, before / between / after the browser's operations
		if r.Chance(2, 5) {
			napi := 1 + r.IntN(3)
			for a := 0; a < napi; a++ {
				at := 0
				if a > 0 || r.Bool() {
					at = r.IntN(len(ops) + 1)
				}
				ops = append(ops, op{})
				copy(ops[at+1:], ops[at:])
				ops[at] = op{kind: "api", name: drv.Pick(r, apiCalls)}
			}
			tags = append(tags, "api=true")
		} else {
			tags = append(tags, "api=false")
		}
		res := p.runOps(r, j0, ops)
		if len(res.opsCoq) == 0 && !res.panicked {
			dropped++
			continue
		}
		tabKeys := make([]string, 0, len(res.htab))
		for k := range res.htab {
			tabKeys = append(tabKeys, k)
		}
		sort.Strings(tabKeys)
		var tab []string
		for _, k := range tabKeys {
			tab = append(tab, emit.Pair(emit.Str(k), emit.Str(res.htab[k])))
		}
		in := emit.Ctor("Inp", c.coq(), emit.List(tab), j0.coq(), emit.List(res.opsCoq))
		obs := emit.Ctor("Obs", emit.List(res.evsCoq))
		if res.panicked { // operations whose response never came are left out of the input
			var known []string
			for _, o := range res.opsCoq {
				if o != "" {
					known = append(known, o)
				}
			}
			in = emit.Ctor("Inp", c.coq(), emit.List(tab), j0.coq(), emit.List(known))
			obs = "OPanic"
		}
		tags = append(tags, fmt.Sprintf("ops=%d", min(len(ops), 8)))
		w.Add(emit.Case{Input: in, Observed: obs, Tags: tags,
			Human: map[string]any{"config": fmt.Sprintf("%+v", c), "jar": j0.coq(), "steps": res.human}})
	}
	// round 11: cookie attributes / browser, and the callback's tail (ext.go)
	extStats := runExtCases(cfg, r, w, pemKey, opk)
	err = w.Close(emit.Meta{Property: "C17", Tier: cfg.Tier, Seed: cfg.Seed,
		Rule: extRule + " ROUNDS 1-10: each case = one way of building the RP + initial jar + history in one browser jar. Building the RP: constructor rp.NewRelyingPartyOAuth (5 of 9 cases) or rp.NewRelyingPartyOIDC against a mock OP (4 of 9; discovery document with code_challenge_methods_supported absent / null / [] / [S256] / [plain] / [plain,S256] / case and white-space variants of S256 / unknown methods (18 variants, cycled), scopes_supported absent / same / superset / subset / disjoint / upper-case / empty / null relative to the configured scopes, response types, grant types, token endpoint auth methods, response modes, unknown members; ID tokens signed by the mock OP, also token responses without id_token), the option list IN ORDER (WithPKCE / WithCookieHandler once or several times, earlier ones with a foreign CookieHandler, the last one with the RP's keys; WithJWTProfile and the neutral options at random positions), in 1 of 4 cases a second RP with the opposite PKCE setting built and used afterwards in the same process; client (also long / keyword-like), redirect URI, scopes (also 61 scopes, duplicates), URL options, auth style, cookie keys: hash key of 16/32/33/48/64/65/100 bytes, block key none/16/24/32. kind=pair: scripted jar (valid / other value / minted by a foreign CookieHandler whose keys are near misses of the RP's: differing tail behind a 64/32/16/8-byte prefix, prefix or extension of the hash key, same hash key with other block key, first byte, unrelated / other name / swapped / truncated / flipped / random / plaintext / missing / duplicate cookies) and one callback query; kind=ordering: every interleaving of 2 or 3 logins and their callbacks, cycled; kind=overlap: requests that run re-entrantly, on the same handler values, inside another request's option evaluation: login inside login (1st of 2, 2nd of 3, twice, after a finished flow), login+callback inside a callback, double-submitted callback, callback inside a login; states: short / empty / non-ASCII / 255-2000 bytes with shared prefixes / too long for the cookie; callback query shapes: state present / absent / empty / duplicated (same, different, first or last matching) / in the POST body vs the URL, with or without code and error; every 5th callback state is a near miss (prefix, suffix, case, Unicode case-folding partners, surrounding white space, trailing slash, one byte, cut at 64/128/255/256/257, tampered tail); every 8th code is empty / keyword-like / > 4 KiB; kind=history: random logins (some overlapped), callbacks (GET/POST, lost responses), deletions and unacceptable foreign cookie writes; kind=replay: histories that also re-insert older validly minted cookies. A third of ALL logins are requests that carry parameters of their own (OStartQ: code_challenge / code_challenge_method / state / client_id / redirect_uri / scope / response_type / nonce / prompt / login_hint / request / unknown names, case variants, repeated, several at once; URL query or POST form); the authorization URL must carry every protected parameter exactly once. In 2 of 5 cases of every kind 1-3 OTHER API calls on the same RP value (rp.ClientCredentials once / twice, RefreshTokens, Userinfo, EndSession, RevokeToken, DeviceAuthorization with the RP's own or other scopes, CodeExchange, GenerateAndStoreCodeChallenge, AuthURL with other options, JWT profile assertion; mock OP endpoints for all of them) are inserted before / between / after the browser's operations, each followed by rp.AuthURL(probe-state, rp), which must render the configured values; the RP gets the driver's own copy of the scopes slice (spare capacity 4), compared with the configured scopes after each call; scope lists with offline_access / openid at every position. Non-trivial = the model's path class != 0 (anything beyond 'no state cookie in the jar'); distinct = distinct (input, path).",
		Extra: map[string]any{"orderings_2": len(ord2), "orderings_3": len(ord3), "ordering_cases": ordIdx, "dropped": dropped, "ext": extStats},
	})
	if err != nil {
		fmt.Fprintln(os.Stderr, err)
		os.Exit(2)
	}
}

type readerFunc func([]byte) (int, error)

func (f readerFunc) Read(b []byte) (int, error) { return f(b) }
