// Driver for C05 (no tokens or token metadata without client authentication and
// a registered grant). One case = one HTTP request against one router of a
// provider built over refstore, with an otherwise valid grant prepared in the
// store, so that only client registration x presented credential x grant_type
// x provider configuration vary.
package main

import (
	"context"
	"crypto/sha256"
	"encoding/base64"
	"encoding/json"
	"io"
	"log/slog"
	"fmt"
	"net/http"
	"net/http/httptest"
	"net/url"
	"os"
	"strings"
	"time"

	jose "github.com/go-jose/go-jose/v4"
	"golang.org/x/text/language"

	"verifharness/drv"
	"verifharness/emit"
	"verifharness/opfix"
	"verifharness/refstore"

	"github.com/zitadel/oidc/v3/pkg/oidc"
	"github.com/zitadel/oidc/v3/pkg/op"
)

// ---------------------------------------------------------------- vocabulary (mirrors C05_Model.v)

var (
	routerN   = []string{"RProvider", "RLegacy"}
	endpointN = []string{"EToken", "EIntrospect", "ERevoke", "EDeviceAuthz"}
	endpointT = []string{"token", "introspect", "revoke", "device_authz"}
	methN     = []string{"MBasic", "MPost", "MPKJWT", "MNone", "MOther"}
	methV     = []oidc.AuthMethod{oidc.AuthMethodBasic, oidc.AuthMethodPost, oidc.AuthMethodPrivateKeyJWT, oidc.AuthMethodNone, ""}
	// MOther: values of Client.AuthMethod() outside the library's four constants (the client has a stored secret)
	methOther = []struct{ Name, V string }{{"unset", ""}, {"client_secret_jwt", "client_secret_jwt"}, {"tls_client_auth", "tls_client_auth"},
		{"self_signed_tls_client_auth", "self_signed_tls_client_auth"}, {"unknown", "some_unknown_method"}, {"None_titlecase", "None"}, {"NONE_upper", "NONE"},
		{"none_trail_sp", "none "}, {"null", "null"}, {"Private_Key_JWT", "Private_Key_JWT"}, {"CLIENT_SECRET_POST", "CLIENT_SECRET_POST"},
		{"client_secret_basic_trail_sp", "client_secret_basic "}, {"public", "public"}}
	appN      = []string{"AWeb", "ANative", "AUserAgent"}
	appV      = []op.ApplicationType{op.ApplicationTypeWeb, op.ApplicationTypeNative, op.ApplicationTypeUserAgent}
	grantN    = []string{"GCode", "GRefresh", "GCC", "GBearer", "GTE", "GDevice", "GImplicit", "GUnknown", "GMissing"}
	grantV    = []string{"authorization_code", "refresh_token", "client_credentials", string(oidc.GrantTypeBearer),
		string(oidc.GrantTypeTokenExchange), string(oidc.GrantTypeDeviceCode), "implicit", "password", ""}
	grantT = []string{"code", "refresh", "client_credentials", "jwt_bearer", "token_exchange", "device_code", "implicit", "unknown", "missing"}
	secN   = []string{"SRight", "SWrong", "SEmpty", "SBlank", "SNear"}
	assN   = []string{"AOk", "AWrongKey", "AWrongAud", "AJunk"}
)

const (
	gCode = iota
	gRefresh
	gCC
	gBearer
	gTE
	gDevice
	gImplicit
	gUnknown
	gMissing
)
const (
	eToken = iota
	eIntrospect
	eRevoke
	eDeviceAuthz
)
const (
	pNone = iota
	pIDOnly
	pBasic
	pBasicBadEsc
	pPost
	pAssert
	pBoth
	pXBasic  // Basic X:secret(X) + client_id=Y
	pXAssert // assertion of X + client_id=Y
	pXPost   // form client_id=X, client_secret=secret(X) + Basic Y:wrong
	pXPostID // form client_id=Y, client_secret=secret(X)
	pXDup    // body client_id=X, client_secret=secret(X) + URL query client_id=Y
	// partial credentials
	pAssertTypeOnly  // client_id + client_assertion_type, no client_assertion
	pAssertNoType    // valid client_assertion, no client_assertion_type
	pAssertWrongType // valid client_assertion, another client_assertion_type
	// a near miss of X's id (surrounding white space, other case, ...) with a secret, in the Basic header or in the form
	pNearID
	pAssertID // client_id=X + client_assertion + client_assertion_type
	pXSub     // assertion issued and signed by X with sub = Y; artefact of Y
)

const (
	sRight = iota
	sWrong
	sEmpty
	sBlank // white space only
	sNear  // near miss of the right secret
)

// ---------------------------------------------------------------- concrete strings behind the abstract kinds
//
// The model knows a secret as right / wrong / empty / blank / near miss and an id as X's or a near miss of it;
// the driver varies the concrete string (form) and how it is encoded on the wire.

type strForm struct {
	Name string
	F    func(right string) string
}

func lit(s string) func(string) string { return func(string) string { return s } }

// fold replaces letters by their Unicode case-fold twins (U+017F long s, U+212A Kelvin sign): equal under
// strings.EqualFold, different byte strings. Falls back to upper-casing when the string has neither letter.
func fold(s string) string {
	t := strings.NewReplacer("s", "\u017f", "k", "\u212a").Replace(s)
	if t == s {
		t = strings.ToUpper(s)
	}
	return t
}

// white space only (every string is trimmed to "" by strings.TrimSpace)
var blankForms = []strForm{{"sp", lit(" ")}, {"tab", lit("\t")}, {"lf", lit("\n")}, {"crlf", lit("\r\n")}, {"sp3", lit("   ")},
	{"mix", lit(" \t\r\n")}, {"nbsp", lit("\u00a0")}, {"vtff", lit("\v\f")}, {"emsp", lit("\u2003")}, {"nel", lit("\u0085")}}

// near misses of a given string: equal to it after trimming / case folding / cutting at a fixed length, never equal byte by byte
var nearForms = []strForm{
	{"trail_sp", func(r string) string { return r + " " }}, {"lead_sp", func(r string) string { return " " + r }},
	{"trail_lf", func(r string) string { return r + "\n" }}, {"trail_crlf", func(r string) string { return r + "\r\n" }},
	{"lead_lf", func(r string) string { return "\n" + r }}, {"tabs", func(r string) string { return "\t" + r + "\t" }},
	{"trail_nbsp", func(r string) string { return r + "\u00a0" }}, {"upper", strings.ToUpper}, {"fold", fold},
	{"slash", func(r string) string { return r + "/" }}, {"drop_last", func(r string) string { return r[:len(r)-1] }},
	{"extend", func(r string) string { return r + "x" }}, {"nul", func(r string) string { return r + "\x00" }},
	// strings that percent-decode ONE MORE time to the original (Basic user / password are decoded once, RFC 6749 2.3.1, a form
	// value not at all beyond the form decoding); never sent raw, so that the library sees exactly this string
	{"once_pct_first", func(r string) string { return fmt.Sprintf("%%%02X", r[0]) + r[1:] }}, {"once_pct_all", pctAll},
	{"once_pct_lower", func(r string) string { return r[:len(r)-1] + fmt.Sprintf("%%%02x", r[len(r)-1]) }},
	{"once_plus", func(r string) string {
		if strings.Contains(r, " ") {
			return strings.ReplaceAll(r, " ", "+")
		}
		return r[:1] + fmt.Sprintf("%%%02X", r[1]) + r[2:]
	}},
	// the reverse confusion (round 11): a space where the registered string has a literal "+". Form-encoded (RFC 6749 2.3.1,
	// url.QueryEscape) the space travels as "+", so the wire bytes LOOK like the registered string; decoded they are not it.
	{"plus_to_space", func(r string) string {
		if strings.Contains(r, "+") {
			return strings.ReplaceAll(r, "+", " ")
		}
		return r + " "
	}},
}

func formIndex(fs []strForm, name string) int {
	for i, f := range fs {
		if f.Name == name {
			return i
		}
	}
	panic("no form " + name)
}

// plain wrong secrets, among them the keyword-like literals and an over-long one
var wrongForms = []strForm{{"wrong", lit("wrong-secret")}, {"null", lit("null")}, {"NULL", lit("NULL")}, {"nil", lit("nil")},
	{"undefined", lit("undefined")}, {"true", lit("true")}, {"false", lit("false")}, {"zero", lit("0")}, {"brackets", lit("[]")},
	{"braces", lit("{}")}, {"long5k", lit(strings.Repeat("w", 5000))}}

// near misses of an id: those of nearForms, white space only, keyword-like literals
var idForms = append(append([]strForm{}, nearForms...), strForm{"blank", lit(" ")}, strForm{"null", lit("null")}, strForm{"undefined", lit("undefined")})

// near misses of a grant_type value
var grantForms = []strForm{{"upper", strings.ToUpper}, {"lead_sp", func(r string) string { return " " + r }},
	{"trail_sp", func(r string) string { return r + " " }}, {"trail_lf", func(r string) string { return r + "\n" }},
	{"fold", fold}, {"drop_last", func(r string) string { return r[:len(r)-1] }}, {"slash", func(r string) string { return r + "/" }},
	{"null", lit("null")}, {"undefined", lit("undefined")}, {"title", func(r string) string { return strings.ToUpper(r[:1]) + r[1:] }}}

// audiences that are not the issuer: another host, near misses of the issuer
var audForms = append(append([]strForm{{"other", lit("https://other.example.com")}}, nearForms[:12]...),
	// the issuer of ANOTHER tenant (host) of the same provider instance; with a static issuer just another host
	strForm{"other_tenant", otherTenant})

func otherTenant(iss string) string {
	if iss == "https://"+hostsT[0] {
		return "https://" + hostsT[1]
	}
	return "https://" + hostsT[0]
}

// client_assertion_type values that are not the jwt-bearer urn
var atypeForms = []strForm{{"saml2", lit("urn:ietf:params:oauth:client-assertion-type:saml2-bearer")}, {"upper", strings.ToUpper},
	{"trail_sp", func(r string) string { return r + " " }}, {"lead_sp", func(r string) string { return " " + r }}, {"drop_last", func(r string) string { return r[:len(r)-1] }}}

// client_assertion values that are not a JWT
var junkForms = []string{"junk", "x", "null", "a.b.c", "e30.e30.", "eyJhbGciOiJub25lIn0.e30.", " "}

func formsOf(kind int) []strForm {
	switch kind {
	case sWrong:
		return wrongForms
	case sBlank:
		return blankForms
	case sNear:
		return nearForms
	}
	return nil
}

// secretString: the concrete secret of an abstract kind in the form with index f (taken modulo the number of forms)
func secretString(kind, f int, right string) (string, string) {
	switch kind {
	case sRight:
		return right, "right"
	case sEmpty:
		return "", "empty"
	}
	fs := formsOf(kind)
	x := fs[f%len(fs)]
	return x.F(right), strings.ToLower(secN[kind][1:]) + "_" + x.Name
}

// wire encodings of a Basic user / password and of a form value
var encT = []string{"raw", "pct", "plus"} // Basic: as is / every byte %XX / url.QueryEscape (space as "+")
var fencT = []string{"std", "pct", "rawbody"} // form: url.QueryEscape / every byte %XX / as is (request body only)

func wire(s string, enc int) string {
	switch enc {
	case 1:
		return pctAll(s)
	case 2:
		return url.QueryEscape(s)
	}
	return s
}

func isCross(k int) bool { return k >= pXBasic && k <= pXDup || k == pXSub }

var partialN = map[int]string{pAssertTypeOnly: "PAssertTypeOnly", pAssertNoType: "PAssertNoType", pAssertWrongType: "PAssertWrongType"}
var partialT = map[int]string{pAssertTypeOnly: "assertion_type_only", pAssertNoType: "assertion_no_type", pAssertWrongType: "assertion_wrong_type"}
var prevN = []string{"NoPrev", "PrevAssert", "PrevBasic", "PrevPost", "PrevSelf", "PrevOtherHost"}
var prevT = []string{"none", "assertion", "basic", "post", "self", "self_other_host"}

// state of the token the request carries (token to introspect / revoke, jwt-bearer grant assertion)
var artN = []string{"ArtOk", "ArtJunk", "ArtGone"}
var artT = []string{"live", "junk", "gone"}

// strings that do not decode: not an encrypted token id, not a JWT of this provider ("valid" = the live token of the case)
// (the opaque tokens are AES-CFB without authentication: a live token with bytes appended or its tail cut off still decrypts to
// the live token id, so such strings are NOT junk and are not generated here)
var junkTokenForms = []strForm{{"junk", lit("junk")}, {"x", lit("x")}, {"null", lit("null")}, {"short_prefix", func(v string) string { return v[:min(12, len(v)/2)] }},
	{"dots", lit("a.b.c")}, {"not_base64", func(v string) string { return "!" + v }},
	{"alg_none_jwt", lit("eyJhbGciOiJub25lIn0.eyJqdGkiOiJhdC14Iiwic3ViIjoiYWxpY2UifQ.")}, {"space", lit(" ")}}

// well formed, names nothing live
var goneTokenForms = []string{"unknown_id", "expired", "other_subject_unknown"}
var goneBearerForms = []string{"expired", "aud_other_host", "aud_other_tenant", "iat_too_old"}

// hosts of a provider that derives its issuer from the request (op.IssuerFromHost)
var hostsT = []string{"a.op.example.com", "b.op.example.com"}

var crossN = map[int]string{pXBasic: "PXBasic", pXAssert: "PXAssert", pXPost: "PXPost", pXPostID: "PXPostId", pXDup: "PXDup", pXSub: "PXSub"}
var crossT = map[int]string{pXBasic: "cross_basic", pXAssert: "cross_assertion", pXPost: "cross_post_basic_other", pXPostID: "cross_post_other_id", pXDup: "cross_dup_client_id", pXSub: "cross_assertion_subject"}

// where parameters travel
var gplaceN = []string{"GPBody", "GPQuery", "GPBothSame", "GPBothDiff"}
var gplaceT = []string{"body", "query", "both_same", "both_diff"}
var placeN = []string{"InBody", "InQuery"}
var placeT = []string{"body", "query"}

type plT struct{ Grant, Client, Art int }

func (p plT) coq() string {
	return emit.Ctor("mkPl", gplaceN[p.Grant], placeN[p.Client], placeN[p.Art])
}

type cfgT struct {
	Post, PKJWT, Refresh, CC, TE, Dev bool
	NoJP                                bool // the provider object handed to NewLegacyServer hides the optional method JWTProfileVerifier
	Sub                                 bool // the provider's JWTProfileVerifier is overridden: custom op.SubjectCheck that lets iss != sub pass
	// the REST of op.Config, next to the flags above (index of envT; not in the model: no guard reads it, and the theorems
	// about disabled grants hold for every configuration)
	Env int
	// the provider derives its issuer from the request's host (op.IssuerFromHost) instead of a static one (not in the model:
	// an assertion is AOk exactly when it is addressed to the issuer of the host it is sent to)
	Dyn bool
}

var envT = []string{"default", "offline_access_claims_nos256", "openid_only_backchannel", "grant_names_as_scopes"}

// restOfConfig fills in what the switches of cfgT leave open
func restOfConfig(cfg *op.Config, env int) {
	dev := op.DeviceAuthorizationConfig{Lifetime: 5 * time.Minute, PollInterval: 5 * time.Second, UserFormPath: "/device", UserCode: op.UserCodeBase20}
	cfg.DefaultLogoutRedirectURI = "/logged-out"
	cfg.CodeMethodS256, cfg.RequestObjectSupported = true, true
	switch env {
	case 1:
		cfg.SupportedScopes = []string{"openid", "profile", "email", "phone", "address", "offline_access"}
		cfg.SupportedClaims = []string{"sub", "aud", "exp", "iat", "iss", "auth_time", "nonce", "name", "email"}
		cfg.SupportedUILocales = []language.Tag{language.English, language.German}
		cfg.CodeMethodS256, cfg.RequestObjectSupported = false, false
		dev.Lifetime, dev.PollInterval, dev.UserFormPath, dev.UserCode = 10*time.Minute, time.Second, "/activate", op.UserCodeDigits
	case 2:
		cfg.SupportedScopes = []string{"openid"}
		cfg.SupportedClaims = []string{"sub"}
		cfg.BackChannelLogoutSupported, cfg.BackChannelLogoutSessionSupported = true, true
		cfg.DefaultLogoutRedirectURI = "https://app.example.com/bye"
		dev.Lifetime, dev.UserFormPath, dev.UserFormURL = time.Minute, "", "https://login.example.com/device"
	case 3:
		cfg.SupportedScopes = []string{"openid", "offline_access", "refresh_token", "client_credentials", "device_code",
			string(oidc.GrantTypeTokenExchange), string(oidc.GrantTypeDeviceCode), string(oidc.GrantTypeBearer), "private_key_jwt", "client_secret_post"}
		cfg.SupportedClaims = []string{"refresh_token", "offline_access", "client_secret_post", "private_key_jwt"}
		cfg.RequestObjectSupported = false
	}
	cfg.DeviceAuthorization = dev
}

type regT struct {
	Known  bool
	Meth   int
	MV     int // Meth == 4: which value outside the four constants AuthMethod() returns (index modulo methOther)
	App    int
	Grants [7]bool // registered grant types, indexed like grantV[0..6]
	HasKey bool
}

type presT struct {
	Kind  int
	B, P  int  // secret kinds (basic / post)
	Pct   bool // basic credentials percent-encoded byte by byte
	Enc   int  // wire encoding of the Basic credentials (index of encT); Pct = Enc 1
	FEnc  int  // wire encoding of client_id / client_secret in the form (index of fencT)
	BF    int  // concrete form of the Basic secret within its kind (index modulo the list of forms)
	PF    int  // ... of the form secret
	Slot  int  // pNearID: 0 = Basic header, 1 = form, 2 = issuer of the client assertion
	AF    int  // concrete form of a wrong assertion audience / of a wrong client_assertion_type (index modulo the forms)
	IDF   int  // pNearID: concrete form of the id (index modulo idForms)
	BadID bool // malformed escape sits in the id part (else in the secret)
	A     int  // assertion kind
	VM    int  // cross-client kinds: auth method the second client Y is registered with (0..4, 4 = a value outside the constants)
	VG    bool // ... and whether Y is registered for every grant (else for none)
}

type caseT struct {
	Router   int
	Endpoint int
	Cfg      cfgT
	Reg      regT
	Pres     presT
	Grant    int
	Pl       plT
	Prev     int    // 0 = first request on the fixture state; 1..3 = preceded by a fully credentialed request of a third client; 4 = by X's own
	GForm    int    // Grant == gUnknown: 0 = "password"; n > 0: grantForms[n-1] of the grant GBase, whose artefact the request carries
	GBase    int
	Host     int    // Cfg.Dyn: the host the request is sent to (index of hostsT)
	Art      int    // state of the token to introspect / revoke, of the jwt-bearer grant assertion (index of artN)
	ArtF     int    // ... its concrete form (index modulo the forms of the kind)
	SecKind  int    // how the stored secret of a secret-registered client looks (index of secKindT)
	IDKind   int    // how X's client id looks (index of idKindT)
	Tag      string // extra tag for directed cases
}

func (c cfgT) coq() string {
	return emit.Ctor("mkCfg", emit.Bool(c.Post), emit.Bool(c.PKJWT), emit.Bool(c.Refresh), emit.Bool(c.CC), emit.Bool(c.TE), emit.Bool(c.Dev), emit.Bool(!c.NoJP), emit.Bool(c.Sub))
}
func (r regT) coq() string {
	var gs []string
	for i, b := range r.Grants {
		if b {
			gs = append(gs, grantN[i])
		}
	}
	return emit.Ctor("mkReg", emit.Bool(r.Known), methN[r.Meth], appN[r.App], emit.List(gs), emit.Bool(r.HasKey))
}
func (p presT) coq() string {
	switch p.Kind {
	case pNone:
		return "PNone"
	case pIDOnly:
		return "PIdOnly"
	case pBasic:
		return emit.Ctor("PBasic", secN[p.B], emit.Bool(p.enc() != 0))
	case pBasicBadEsc:
		return "PBasicBadEsc"
	case pPost:
		return emit.Ctor("PPost", secN[p.P])
	case pAssert:
		return emit.Ctor("PAssert", assN[p.A])
	case pAssertID:
		return emit.Ctor("PAssertId", assN[p.A])
	case pBoth:
		return emit.Ctor("PBoth", secN[p.B], secN[p.P])
	case pAssertTypeOnly, pAssertNoType, pAssertWrongType:
		return partialN[p.Kind]
	case pNearID:
		return emit.Ctor("PNearId", []string{"IdBasic", "IdForm", "IdAssert"}[p.Slot], secN[p.B])
	}
	return emit.Ctor(crossN[p.Kind], emit.Ctor("mkV", methN[p.VM], emit.Bool(p.VG)))
}
func (p presT) tag() string {
	switch p.Kind {
	case pNone:
		return "none"
	case pIDOnly:
		return "id_only"
	case pBasic:
		s := "basic_" + strings.ToLower(secN[p.B][1:])
		if p.enc() != 0 {
			s += "_pct"
		}
		return s
	case pNearID:
		return "near_id_" + []string{"basic", "form", "assertion"}[p.Slot] + "_" + strings.ToLower(secN[p.B][1:])
	case pBasicBadEsc:
		return "basic_bad_escape"
	case pPost:
		return "post_" + strings.ToLower(secN[p.P][1:])
	case pAssert:
		return "assertion_" + strings.ToLower(assN[p.A][1:])
	case pAssertID:
		return "id_and_assertion_" + strings.ToLower(assN[p.A][1:])
	case pXBasic, pXAssert, pXPost, pXPostID, pXDup, pXSub:
		return crossT[p.Kind]
	case pAssertTypeOnly, pAssertNoType, pAssertWrongType:
		return partialT[p.Kind]
	}
	return "both_" + strings.ToLower(secN[p.B][1:]) + "_" + strings.ToLower(secN[p.P][1:])
}
func (p presT) enc() int {
	if p.Enc == 0 && p.Pct {
		return 1
	}
	return p.Enc
}

// formTags: the concrete strings and encodings behind the abstract presentation
func (p presT) formTags() []string {
	var t []string
	basic := p.Kind == pBasic || p.Kind == pBoth || p.Kind == pNearID && p.Slot == 0
	post := p.Kind == pPost || p.Kind == pBoth || p.Kind == pNearID && p.Slot == 1
	if basic {
		_, n := secretString(p.B, p.BF, "xxxx")
		enc := p.enc()
		if enc == 0 && (strings.Contains(n, "once_") || p.Kind == pNearID && strings.HasPrefix(idForms[p.IDF%len(idForms)].Name, "once_")) {
			enc = 1
		}
		t = append(t, "basic_secret="+n, "basic_enc="+encT[enc])
	}
	if post {
		k, f := p.P, p.PF
		if p.Kind == pNearID {
			k, f = p.B, p.BF
		}
		_, n := secretString(k, f, "xxxx")
		if p.Kind == pBoth && k == sEmpty && f%2 == 1 {
			n = "absent"
		}
		t = append(t, "form_secret="+n, "form_enc="+fencT[p.FEnc])
	}
	if p.Kind == pNearID {
		t = append(t, "id_form="+idForms[p.IDF%len(idForms)].Name)
	}
	if (p.Kind == pAssert || p.Kind == pAssertID) && p.A == 2 {
		t = append(t, "aud_form="+audForms[p.AF%len(audForms)].Name)
	}
	if p.Kind == pAssertWrongType {
		t = append(t, "atype_form="+atypeForms[p.AF%len(atypeForms)].Name)
	}
	return t
}

var secKindT = []string{"plain", "len1024", "len4096", "len4100", "padded", "specials", "plus"}

// how X's client id looks: letters and digits; with a literal "+"; with a space (both legal in a client id, both must be
// form-encoded in the Basic header: %2B, and "+" or %20)
var idKindT = []string{"plain", "plus", "space"}

func clientID(kind, n int) string {
	switch kind {
	case 1:
		return fmt.Sprintf("ck+s%d", n)
	case 2:
		return fmt.Sprintf("ck s%d", n)
	}
	return fmt.Sprintf("cks%d", n) // has letters with Unicode case-fold twins
}

// formDecode: application/x-www-form-urlencoded decoding written out by hand (RFC 6749 2.3.1 / appendix B: "+" is a space,
// %XX a byte) - the harness's own ground truth for what a Basic user / password on the wire MEANS, independent of net/url
func formDecode(w string) (string, bool) {
	hex := func(c byte) int {
		switch {
		case c >= '0' && c <= '9':
			return int(c - '0')
		case c >= 'a' && c <= 'f':
			return int(c-'a') + 10
		case c >= 'A' && c <= 'F':
			return int(c-'A') + 10
		}
		return -1
	}
	var out []byte
	for i := 0; i < len(w); i++ {
		switch w[i] {
		case '+':
			out = append(out, ' ')
		case '%':
			if i+2 >= len(w) || hex(w[i+1]) < 0 || hex(w[i+2]) < 0 {
				return "", false
			}
			out = append(out, byte(hex(w[i+1])<<4|hex(w[i+2])))
			i += 2
		default:
			out = append(out, w[i])
		}
	}
	return string(out), true
}

var labelErrors int // Basic credentials whose wire form does not mean what the case's abstract kind says (must stay 0)

func (c caseT) coq() string {
	return emit.Ctor("mkInput", routerN[c.Router], endpointN[c.Endpoint], c.Cfg.coq(), c.Reg.coq(), c.Pres.coq(), grantN[c.Grant], c.Pl.coq(), prevN[c.Prev], artN[c.Art])
}

func (c caseT) artForm() string {
	switch {
	case c.Art == 1 && c.Endpoint == eToken:
		return "not_a_jwt"
	case c.Art == 1:
		return junkTokenForms[c.ArtF%len(junkTokenForms)].Name
	case c.Endpoint == eToken:
		return goneBearerForms[c.ArtF%len(goneBearerForms)]
	}
	return goneTokenForms[c.ArtF%len(goneTokenForms)]
}

func (c caseT) issuer() string {
	if c.Cfg.Dyn {
		return "https://" + hostsT[c.Host]
	}
	return opfix.Issuer
}

func onoff(b bool) string {
	if b {
		return "on"
	}
	return "off"
}

func (c caseT) tags() []string {
	t := []string{"router=" + opfix.Router(c.Router).String(), "endpoint=" + endpointT[c.Endpoint],
		"meth=" + strings.ToLower(methN[c.Reg.Meth][1:]), "app=" + strings.ToLower(appN[c.Reg.App][1:]),
		"pres=" + c.Pres.tag(), "known=" + onoff(c.Reg.Known), "key=" + onoff(c.Reg.HasKey),
		"post=" + onoff(c.Cfg.Post), "pkjwt=" + onoff(c.Cfg.PKJWT), "refresh=" + onoff(c.Cfg.Refresh),
		"cc=" + onoff(c.Cfg.CC), "te=" + onoff(c.Cfg.TE), "dev=" + onoff(c.Cfg.Dev), "jwtprofile_method=" + onoff(!c.Cfg.NoJP), "subject_check=" + map[bool]string{false: "default", true: "custom"}[c.Cfg.Sub], "config_rest=" + envT[c.Cfg.Env],
		"issuer=" + map[bool]string{false: "static", true: "per_host"}[c.Cfg.Dyn]}
	if c.Cfg.Dyn {
		t = append(t, "host="+[]string{"a", "b"}[c.Host])
	}
	if c.Endpoint == eIntrospect || c.Endpoint == eRevoke || c.Endpoint == eToken && c.Grant == gBearer {
		t = append(t, "artefact="+artT[c.Art])
		if c.Art != 0 {
			t = append(t, "artefact_form="+c.artForm())
		}
	}
	if c.Reg.Meth == 4 {
		t = append(t, "meth_value="+methOther[c.Reg.MV%len(methOther)].Name)
	}
	if c.Endpoint == eToken {
		t = append(t, "grant="+grantT[c.Grant])
		if c.Grant < 7 {
			t = append(t, "grant_registered="+onoff(c.Reg.Grants[c.Grant]))
		}
	} else if c.Endpoint == eDeviceAuthz {
		t = append(t, "grant_registered="+onoff(c.Reg.Grants[gDevice]))
	}
	t = append(t, "pl_client="+placeT[c.Pl.Client], "pl_artefact="+placeT[c.Pl.Art])
	if c.Endpoint == eToken {
		t = append(t, "pl_grant="+gplaceT[c.Pl.Grant])
	}
	t = append(t, "prev="+prevT[c.Prev])
	for _, ft := range c.Pres.formTags() {
		if strings.HasPrefix(ft, "basic_enc=") {
			ft = "basic_enc=" + encT[c.basicEnc()]
		}
		t = append(t, ft)
	}
	t = append(t, "id_kind="+idKindT[c.IDKind])
	if hasStoredSecret(c.Reg.Meth) {
		t = append(t, "stored_secret="+secKindT[c.SecKind])
	}
	if c.Endpoint == eToken && c.Grant == gUnknown && c.GForm > 0 {
		t = append(t, "grant_form="+grantT[c.GBase]+"_"+grantForms[c.GForm-1].Name)
	}
	if isCross(c.Pres.Kind) {
		t = append(t, "victim="+strings.ToLower(methN[c.Pres.VM][1:]), "victim_grants="+onoff(c.Pres.VG))
	}
	if c.Tag != "" {
		t = append(t, c.Tag)
	}
	return t
}

// ---------------------------------------------------------------- fixtures (one per configuration)

type world struct {
	f  *opfix.Fixture
	st *refstore.Store
	n  int
	// the LegacyServer router over a provider object that hides every optional method the LegacyServer type-asserts on
	// its provider (JWTProfileVerifier: interfaces ClientJWTProfile and JWTAuthorizationGrantExchanger)
	legacyBare http.Handler
	// both routers over a wrapper around the provider whose JWTProfileVerifier has a permissive SubjectCheck
	subject [2]http.Handler
}

// subProvider overrides the JWT profile verifier the provider hands out (client authentication by assertion and the
// jwt-bearer grant): same storage, issuer and offset, a shorter max iat age, and a SubjectCheck that accepts any subject
type subProvider struct{ *op.Provider }

func (p subProvider) JWTProfileVerifier(ctx context.Context) *op.JWTProfileVerifier {
	return op.NewJWTProfileVerifier(p.Storage(), op.IssuerFromContext(ctx), 10*time.Minute, time.Second,
		op.SubjectCheck(func(*oidc.JWTTokenRequest) error { return nil }))
}

// bareProvider embeds the OpenIDProvider interface: only its methods are visible, not the optional ones of *op.Provider
type bareProvider struct{ op.OpenIDProvider }

func hasStoredSecret(meth int) bool { return meth == 0 || meth == 1 || meth == 4 }

func authMethodOf(meth, mv int) oidc.AuthMethod {
	if meth == 4 {
		return oidc.AuthMethod(methOther[mv%len(methOther)].V)
	}
	return methV[meth]
}

func (w *world) handler(c caseT) http.Handler {
	if c.Router == 1 && c.Cfg.NoJP {
		return w.legacyBare
	}
	if c.Cfg.Sub {
		return w.subject[c.Router]
	}
	return w.f.Handlers[c.Router]
}

var worlds = map[cfgT]*world{}

var primerFailed int // primer requests that were not answered active:true (must stay 0)

func worldOf(c cfgT) *world {
	c.NoJP, c.Sub = false, false // one fixture serves all
	if w, ok := worlds[c]; ok {
		return w
	}
	st := refstore.New(opfix.DefaultSigning())
	st.Users["alice"] = &refstore.User{Subject: "alice", Name: "Alice A", Email: "alice@example.com"}
	var f *opfix.Fixture
	var err error
	if c.Env == 0 && !c.Dyn {
		f, err = opfix.New(st, opfix.Options{NoPost: !c.Post, NoPKJWT: !c.PKJWT, NoRefresh: !c.Refresh, NoCC: !c.CC, NoTE: !c.TE, NoDevice: !c.Dev})
	} else {
		// the same provider as opfix.New builds, with another rest of the configuration
		cfg := &op.Config{CryptoKey: sha256.Sum256([]byte("opfix-crypto-key")), AuthMethodPost: c.Post, AuthMethodPrivateKeyJWT: c.PKJWT, GrantTypeRefreshToken: c.Refresh}
		restOfConfig(cfg, c.Env)
		lg := slog.New(slog.NewTextHandler(io.Discard, nil))
		var p *op.Provider
		issuer := op.StaticIssuer(opfix.Issuer)
		if c.Dyn {
			issuer = op.IssuerFromHost("")
		}
		p, err = op.NewProvider(cfg, st.AsStorage(c.CC, c.TE, c.Dev), issuer, op.WithLogger(lg))
		if err == nil {
			f = &opfix.Fixture{Store: st, Provider: p}
			f.Handlers[opfix.Provider] = p
			f.Handlers[opfix.Legacy] = op.RegisterLegacyServer(op.NewLegacyServer(p, *op.DefaultEndpoints), op.AuthorizeCallbackHandler(p), op.WithFallbackLogger(lg))
		}
	}
	if err != nil {
		fmt.Fprintln(os.Stderr, "fixture:", err)
		os.Exit(2)
	}
	w := &world{f: f, st: st}
	if _, has := any(bareProvider{f.Provider}).(op.ClientJWTProfile); has {
		fmt.Fprintln(os.Stderr, "fixture: the wrapper does not hide JWTProfileVerifier")
		os.Exit(2)
	}
	w.legacyBare = op.RegisterLegacyServer(op.NewLegacyServer(bareProvider{f.Provider}, *op.DefaultEndpoints), op.AuthorizeCallbackHandler(f.Provider),
		op.WithFallbackLogger(slog.New(slog.NewTextHandler(io.Discard, nil))))
	quiet := op.WithFallbackLogger(slog.New(slog.NewTextHandler(io.Discard, nil)))
	w.subject[0] = op.CreateRouter(subProvider{f.Provider})
	w.subject[1] = op.RegisterLegacyServer(op.NewLegacyServer(subProvider{f.Provider}, *op.DefaultEndpoints), op.AuthorizeCallbackHandler(f.Provider), quiet)
	worlds[c] = w
	return w
}

var (
	rightKey = opfix.ECKey("c05-client")
	otherKey = opfix.ECKey("c05-other")
)

const redirectURI = "https://app.example.com/cb"
const verifier = "c05-verifier-c05-verifier-c05-verifier-c05-verifier"

func signAssertion(key any, iss string, aud []string) string { return signAssertionSub(key, iss, iss, aud) }

func signAssertionSub(key any, iss, sub string, aud []string) string {
	now := time.Now()
	return signAssertionAt(key, iss, sub, aud, now.Add(-time.Second), now.Add(time.Hour))
}

func signAssertionAt(key any, iss, sub string, aud []string, iat, exp time.Time) string {
	signer, err := jose.NewSigner(jose.SigningKey{Algorithm: jose.ES256, Key: key},
		(&jose.SignerOptions{}).WithHeader("kid", "k1"))
	if err != nil {
		panic(err)
	}
	payload, err := json.Marshal(map[string]any{"iss": iss, "sub": sub, "aud": aud, "iat": iat.Unix(), "exp": exp.Unix()})
	if err != nil {
		panic(err)
	}
	jws, err := signer.Sign(payload)
	if err != nil {
		panic(err)
	}
	s, _ := jws.CompactSerialize()
	return s
}

func pctAll(s string) string {
	var sb strings.Builder
	for i := 0; i < len(s); i++ {
		fmt.Fprintf(&sb, "%%%02X", s[i])
	}
	return sb.String()
}

type outcome struct {
	Status int
	Err    string
	Tok    bool
	Act    bool
	Panic  string
	Writes int
	Body   string
	Who    string // client id the answer acted for ("" = nobody)
	// device authorization followed to its end: did the named other client / the case's client obtain tokens by polling
	PollOther, PollSelf bool
}

// storedSecret: the secret registered for a secret-registered client, by kind (secKindT)
func storedSecret(id string, kind int) string {
	base := "sec-" + id
	long := func(n int) string {
		var sb strings.Builder
		sb.WriteString(base + "-")
		for i := 0; sb.Len() < n; i++ {
			sb.WriteByte("abcdefghijklmnopqrstuvwxyz0123456789"[i*7%36])
		}
		return sb.String()
	}
	switch kind {
	case 1:
		return long(1024)
	case 2:
		return long(4096)
	case 3:
		return long(4100)
	case 4:
		return " \t" + base + " \n" // white space is part of the registered secret
	case 5:
		return base + " +%&=:/?#s"
	case 6:
		return "sec+" + strings.NewReplacer("+", "", " ", "").Replace(id) + "+x" // literal "+", no space
	}
	return base
}

// basicEnc: the wire encoding the Basic credentials really travel in (a user / password with "+" or "%" in it is never sent raw)
func (c caseT) basicEnc() int {
	enc := c.Pres.enc()
	id := clientID(c.IDKind, 0)
	if c.Pres.Kind == pNearID {
		id = idForms[c.Pres.IDF%len(idForms)].F(id)
	}
	right := "decoy-secret"
	if hasStoredSecret(c.Reg.Meth) {
		right = storedSecret(clientID(c.IDKind, 0), c.SecKind)
	}
	sec, _ := secretString(c.Pres.B, c.Pres.BF, right)
	if enc == 0 && strings.ContainsAny(id+sec, "%+") {
		enc = 1
	}
	return enc
}

// goneOrJunk: the token parameter for the state of the case: the live value, a string that does not decode, or a well-formed
// value that names nothing live (an id the storage does not know, an expired token)
func goneOrJunk(c caseT, art int, live string, enc func(string) string, mkExpired func(), sfx string) string {
	switch art {
	case 1:
		return junkTokenForms[c.ArtF%len(junkTokenForms)].F(live)
	case 2:
		switch goneTokenForms[c.ArtF%len(goneTokenForms)] {
		case "expired":
			mkExpired()
			if c.Endpoint == eRevoke {
				return "rt-gone-" + sfx // a refresh token id the storage does not know (any more)
			}
			return enc("at-exp-" + sfx + ":alice")
		case "other_subject_unknown":
			return enc("at-nope-" + sfx + ":bob")
		}
		return enc("at-nope-" + sfx + ":alice")
	}
	return live
}

var selfPrimerOK, selfPrimers int // X's own priming requests answered 2xx / sent

// run prepares the grant artefacts of one case in the store, sends the request and projects the answer.
func run(c caseT) outcome {
	w := worldOf(c.Cfg)
	w.n++
	st := w.st
	id := clientID(c.IDKind, w.n)
	hasSecret := hasStoredSecret(c.Reg.Meth)
	secret := storedSecret(id, c.SecKind)
	stored := secret
	if !hasSecret {
		stored = ""             // refstore contract: AuthorizeClientIDSecret(id, "") succeeds for a client without a secret
		secret = "decoy-secret" // what "the right secret" means for a client that has none
	}
	// every case starts from an empty store (the fixture keeps keys and users)
	st.Clients = map[string]*refstore.Client{}
	st.Tokens, st.Refresh = map[string]*refstore.Token{}, map[string]*refstore.RefreshToken{}
	st.AuthReqs, st.Codes = map[string]*refstore.AuthRequest{}, map[string]string{}
	st.Devices, st.UserCode = map[string]*refstore.Device{}, map[string]string{}
	// cross-client presentations: a second, confidential client Y owns the grant artefact
	cross := isCross(c.Pres.Kind)
	vid := "v" + id
	owner := id
	if cross {
		owner = vid
		v := &refstore.Client{ID: vid, Secret: "sec-" + vid, Redirects: []string{redirectURI}, App: op.ApplicationTypeWeb, Auth: authMethodOf(c.Pres.VM, c.Pres.IDF),
			RespTypes: []oidc.ResponseType{oidc.ResponseTypeCode}, ATType: op.AccessTokenTypeBearer}
		if !hasStoredSecret(c.Pres.VM) {
			v.Secret = ""
		}
		if c.Pres.VM == 2 {
			v.Keys = map[string]*jose.JSONWebKey{"k1": {Key: &otherKey.PublicKey, KeyID: "k1", Algorithm: "ES256", Use: "sig"}}
		}
		for i := 0; i < 7 && c.Pres.VG; i++ {
			v.Grants = append(v.Grants, oidc.GrantType(grantV[i]))
		}
		st.Clients[vid] = v
	}
	if c.Reg.Known {
		cl := &refstore.Client{ID: id, Secret: stored, Redirects: []string{redirectURI}, App: appV[c.Reg.App], Auth: authMethodOf(c.Reg.Meth, c.Reg.MV),
			RespTypes: []oidc.ResponseType{oidc.ResponseTypeCode}, ATType: op.AccessTokenTypeBearer}
		for i, b := range c.Reg.Grants {
			if b {
				cl.Grants = append(cl.Grants, oidc.GrantType(grantV[i]))
			}
		}
		if c.Reg.HasKey {
			cl.Keys = map[string]*jose.JSONWebKey{"k1": {Key: &rightKey.PublicKey, KeyID: "k1", Algorithm: "ES256", Use: "sig"}}
		}
		st.Clients[id] = cl
	}
	now := time.Now()
	// the grant whose artefact the request carries, and the grant_type string it sends
	artGrant, grantStr := c.Grant, grantV[c.Grant]
	if c.Endpoint == eToken && c.Grant == gUnknown && c.GForm > 0 {
		artGrant = c.GBase
		grantStr = grantForms[c.GForm-1].F(grantV[c.GBase])
		if grantStr == grantV[c.GBase] {
			grantStr = strings.ToUpper(grantStr)
		}
	}
	// every place X's id is sent in carries the near miss
	sentID := id
	if c.Pres.Kind == pNearID {
		sentID = idForms[c.Pres.IDF%len(idForms)].F(id)
	}
	path := ""
	// artefact prepares an otherwise valid grant artefact named by sfx for the client own and returns its parameters
	issuerURL := c.issuer()
	artefact := func(sfx, own, iss, aud string, art int) url.Values {
		form := url.Values{}
		rt := "rt-" + sfx
		newRefresh := func() {
			st.Refresh[rt] = &refstore.RefreshToken{ID: rt, ClientID: own, Subject: "alice", Audience: []string{own}, Scopes: []string{"openid"},
				AMR: []string{"pwd"}, AuthTime: now.Add(-time.Minute).Truncate(time.Second), Expiration: now.Add(time.Hour)}
		}
		switch c.Endpoint {
		case eToken:
			path = "/oauth/token"
			switch artGrant {
			case gCode:
				rid := "req-" + sfx
				st.AuthReqs[rid] = &refstore.AuthRequest{ID: rid, ClientID: own, RedirectURI: redirectURI, Scopes: []string{"openid"},
					ResponseType: oidc.ResponseTypeCode, Subject: "alice", IsDone: true, AuthTime: now.Add(-time.Minute).Truncate(time.Second),
					CodeChallenge: &oidc.CodeChallenge{Challenge: opfix.S256(verifier), Method: oidc.CodeChallengeMethodS256}, Nonce: "n"}
				st.Codes["code-"+sfx] = rid
				form.Set("code", "code-"+sfx)
				form.Set("redirect_uri", redirectURI)
				form.Set("code_verifier", verifier)
			case gRefresh:
				newRefresh()
				form.Set("refresh_token", rt)
			case gCC:
				form.Set("scope", "openid")
			case gBearer:
				switch {
				case art == 1:
					form.Set("assertion", junkForms[c.ArtF%len(junkForms)])
				case art == 2:
					switch goneBearerForms[c.ArtF%len(goneBearerForms)] {
					case "expired":
						form.Set("assertion", signAssertionAt(rightKey, iss, iss, []string{aud}, now.Add(-2*time.Minute), now.Add(-time.Minute)))
					case "aud_other_host":
						form.Set("assertion", signAssertion(rightKey, iss, []string{"https://other.example.com"}))
					case "aud_other_tenant":
						form.Set("assertion", signAssertion(rightKey, iss, []string{otherTenant(aud)}))
					default: // issued too long ago (the verifier's max age is 1 h, 10 min with the custom one)
						form.Set("assertion", signAssertionAt(rightKey, iss, iss, []string{aud}, now.Add(-3*time.Hour), now.Add(time.Hour)))
					}
				default:
					form.Set("assertion", signAssertion(rightKey, iss, []string{aud}))
				}
				form.Set("scope", "openid")
			case gTE:
				newRefresh()
				form.Set("subject_token", rt)
				form.Set("subject_token_type", string(oidc.RefreshTokenType))
			case gDevice:
				dc, uc := "dc-"+sfx, "UC-"+sfx
				st.Devices[dc] = &refstore.Device{DeviceCode: dc, UserCode: uc, State: &op.DeviceAuthorizationState{ClientID: own, Scopes: []string{"openid"},
					Expires: now.Add(time.Hour), Done: true, Subject: "alice", AMR: []string{"pwd"}, AuthTime: now.Add(-time.Minute).Truncate(time.Second)}}
				st.UserCode[uc] = dc
				form.Set("device_code", dc)
			}
		case eIntrospect:
			path = "/oauth/introspect"
			at := "at-" + sfx
			st.Tokens[at] = &refstore.Token{ID: at, ClientID: own, Subject: "alice", Audience: []string{own}, Scopes: []string{"openid"}, Expiration: now.Add(time.Hour)}
			enc := func(v string) string {
				tok, err := w.f.Provider.Crypto().Encrypt(v)
				if err != nil {
					panic(err)
				}
				return tok
			}
			form.Set("token", goneOrJunk(c, art, enc(at+":alice"), enc, func() {
				st.Tokens["at-exp-"+sfx] = &refstore.Token{ID: "at-exp-" + sfx, ClientID: own, Subject: "alice", Audience: []string{own}, Scopes: []string{"openid"}, Expiration: now.Add(-time.Minute)}
			}, sfx))
		case eRevoke:
			path = "/revoke"
			newRefresh()
			enc := func(v string) string {
				tok, err := w.f.Provider.Crypto().Encrypt(v)
				if err != nil {
					panic(err)
				}
				return tok
			}
			form.Set("token", goneOrJunk(c, art, rt, enc, func() {}, sfx))
		case eDeviceAuthz:
			path = "/device_authorization"
			form.Set("scope", "openid")
		}
		return form
	}
	form := artefact(id, owner, sentID, issuerURL, c.Art)
	rt := "rt-" + id

	// presentation
	cform := url.Values{}
	dupQueryID := ""
	basicID, basicSec, useBasic := "", "", false
	benc := c.Pres.enc()
	sec := func(k, f int) string {
		s, _ := secretString(k, f, secret)
		return s
	}
	if benc == 0 && strings.ContainsAny(sentID+sec(c.Pres.B, c.Pres.BF), "%+") {
		benc = 1 // a user / password with "+" or "%" in it must be encoded in the Basic header to arrive as it is
	}
	if benc != c.basicEnc() {
		labelErrors++
	}
	switch c.Pres.Kind {
	case pIDOnly:
		cform.Set("client_id", id)
	case pBasic:
		basicID, basicSec, useBasic = wire(id, benc), wire(sec(c.Pres.B, c.Pres.BF), benc), true
	case pBasicBadEsc:
		basicID, basicSec, useBasic = id, wire(secret, benc), true
		if c.Pres.BadID {
			basicID += "%zz"
		} else {
			basicSec += "%zz"
		}
	case pPost:
		cform.Set("client_id", id)
		cform.Set("client_secret", sec(c.Pres.P, c.Pres.PF))
	case pNearID:
		switch c.Pres.Slot {
		case 0:
			basicID, basicSec, useBasic = wire(sentID, benc), wire(sec(c.Pres.B, c.Pres.BF), benc), true
		case 1:
			cform.Set("client_id", sentID)
			cform.Set("client_secret", sec(c.Pres.B, c.Pres.BF))
		default:
			cform.Set("client_assertion_type", oidc.ClientAssertionTypeJWTAssertion)
			cform.Set("client_assertion", signAssertion(rightKey, sentID, []string{issuerURL}))
		}
	case pAssert, pAssertID:
		if c.Pres.Kind == pAssertID {
			cform.Set("client_id", id)
		}
		cform.Set("client_assertion_type", oidc.ClientAssertionTypeJWTAssertion)
		switch c.Pres.A {
		case 3:
			cform.Set("client_assertion", junkForms[c.Pres.AF%len(junkForms)])
		case 0:
			cform.Set("client_assertion", signAssertion(rightKey, id, []string{issuerURL}))
		case 1:
			cform.Set("client_assertion", signAssertion(otherKey, id, []string{issuerURL}))
		default:
			cform.Set("client_assertion", signAssertion(rightKey, id, []string{audForms[c.Pres.AF%len(audForms)].F(issuerURL)}))
		}
	case pBoth:
		basicID, basicSec, useBasic = wire(id, benc), wire(sec(c.Pres.B, c.Pres.BF), benc), true
		cform.Set("client_id", id)
		if !(c.Pres.P == sEmpty && c.Pres.PF%2 == 1) { // empty form secret: sent as client_secret= or (odd form index) not at all
			cform.Set("client_secret", sec(c.Pres.P, c.Pres.PF))
		}
	case pXBasic:
		basicID, basicSec, useBasic = id, wire(secret, benc), true
		cform.Set("client_id", vid)
	case pXAssert:
		cform.Set("client_assertion_type", oidc.ClientAssertionTypeJWTAssertion)
		cform.Set("client_assertion", signAssertion(rightKey, id, []string{issuerURL}))
		cform.Set("client_id", vid)
	case pXSub:
		cform.Set("client_assertion_type", oidc.ClientAssertionTypeJWTAssertion)
		cform.Set("client_assertion", signAssertionSub(rightKey, id, vid, []string{issuerURL}))
	case pXPost:
		basicID, basicSec, useBasic = vid, "wrong-secret", true
		cform.Set("client_id", id)
		cform.Set("client_secret", secret)
	case pXPostID:
		cform.Set("client_id", vid)
		cform.Set("client_secret", secret)
	case pXDup:
		cform.Set("client_id", id)
		cform.Set("client_secret", secret)
		dupQueryID = vid
	case pAssertTypeOnly:
		cform.Set("client_id", id)
		cform.Set("client_assertion_type", oidc.ClientAssertionTypeJWTAssertion)
	case pAssertNoType:
		cform.Set("client_assertion", signAssertion(rightKey, id, []string{issuerURL}))
	case pAssertWrongType:
		cform.Set("client_assertion", signAssertion(rightKey, id, []string{issuerURL}))
		cform.Set("client_assertion_type", atypeForms[c.Pres.AF%len(atypeForms)].F(oidc.ClientAssertionTypeJWTAssertion))
	}
	// placement
	body, query := url.Values{}, url.Values{}
	put := func(dst, src url.Values) {
		for k, vs := range src {
			for _, v := range vs {
				dst.Add(k, v)
			}
		}
	}
	if c.Pl.Art == 0 {
		put(body, form)
	} else {
		put(query, form)
	}
	// client_id / client_secret in another wire encoding than url.Values.Encode's are appended by hand
	fenc := c.Pres.FEnc
	if fenc == 2 && c.Pl.Client != 0 {
		fenc = 0 // raw bytes only in the request body
	}
	handMade := ""
	if fenc != 0 {
		for _, k := range []string{"client_id", "client_secret"} {
			if vs, ok := cform[k]; ok {
				v := vs[0]
				if fenc == 1 {
					v = pctAll(v)
				} else if strings.ContainsAny(v, "&=+%;") {
					v = url.QueryEscape(v)
				}
				handMade += "&" + k + "=" + v
				delete(cform, k)
			}
		}
	}
	if c.Pl.Client == 0 {
		put(body, cform)
	} else {
		put(query, cform)
	}
	if dupQueryID != "" {
		query.Add("client_id", dupQueryID) // after X's id when that travels in the query too
	}
	if c.Endpoint == eToken && c.Grant != gMissing {
		g := grantStr
		switch c.Pl.Grant {
		case 0:
			body.Set("grant_type", g)
		case 1:
			query.Set("grant_type", g)
		case 2:
			body.Set("grant_type", g)
			query.Set("grant_type", g)
		default: // the query names another grant, for which the request carries no artefact
			body.Set("grant_type", g)
			alt := grantV[gRefresh]
			if c.Grant == gRefresh {
				alt = grantV[gCode]
			}
			query.Set("grant_type", alt)
		}
	}
	bodyStr, queryStr := body.Encode(), query.Encode()
	if c.Pl.Client == 0 {
		bodyStr = strings.TrimPrefix(bodyStr+handMade, "&")
	} else {
		queryStr = strings.TrimPrefix(queryStr+handMade, "&")
	}
	target := issuerURL + path
	if queryStr != "" {
		target += "?" + queryStr
	}

	req := httptest.NewRequest(http.MethodPost, target, strings.NewReader(bodyStr))
	req.Header.Set("Content-Type", "application/x-www-form-urlencoded")
	if useBasic {
		req.Header.Set("Authorization", "Basic "+base64.StdEncoding.EncodeToString([]byte(basicID+":"+basicSec)))
		// ground truth, by the harness's own decoder: the header names X / carries X's exact secret exactly when the
		// abstract presentation says so
		switch c.Pres.Kind {
		case pBasic, pBoth, pNearID, pXBasic:
			du, ok1 := formDecode(basicID)
			ds, ok2 := formDecode(basicSec)
			wantRight := c.Pres.B == sRight || c.Pres.Kind == pXBasic
			if !ok1 || !ok2 || (du == id) != (c.Pres.Kind != pNearID) || (ds == secret) != wantRight || c.Pres.B == sEmpty && ds != "" {
				labelErrors++
			}
		}
	}
	// sequence: the same provider instance first serves an introspection request of a third client P
	// that carries P's full credential
	pid := "p" + id
	if c.Prev > 0 && c.Prev < 4 {
		pc := &refstore.Client{ID: pid, Secret: "sec-" + pid, App: op.ApplicationTypeWeb, Auth: oidc.AuthMethodBasic, ATType: op.AccessTokenTypeBearer,
			Keys: map[string]*jose.JSONWebKey{"k1": {Key: &rightKey.PublicKey, KeyID: "k1", Algorithm: "ES256", Use: "sig"}}}
		st.Clients[pid] = pc
		st.Tokens["at-"+pid] = &refstore.Token{ID: "at-" + pid, ClientID: pid, Subject: "alice", Audience: []string{pid}, Scopes: []string{"openid"}, Expiration: now.Add(time.Hour)}
		ptok, _ := w.f.Provider.Crypto().Encrypt("at-" + pid + ":alice")
		pf := url.Values{"token": {ptok}}
		preq := func() *http.Request {
			rq := httptest.NewRequest(http.MethodPost, issuerURL+"/oauth/introspect", strings.NewReader(pf.Encode()))
			rq.Header.Set("Content-Type", "application/x-www-form-urlencoded")
			return rq
		}
		var rq *http.Request
		switch c.Prev {
		case 1:
			pf.Set("client_assertion_type", oidc.ClientAssertionTypeJWTAssertion)
			pf.Set("client_assertion", signAssertion(rightKey, pid, []string{issuerURL}))
			rq = preq()
		case 2:
			rq = preq()
			rq.SetBasicAuth(pid, "sec-"+pid)
		default:
			pf.Set("client_id", pid)
			pf.Set("client_secret", "sec-"+pid)
			rq = preq()
		}
		pr := opfix.Do(w.handler(c), rq)
		if c.Prev == 3 && c.Router == 0 {
			// the Provider router's introspection reads no form secret: that primer is refused, by design
		} else if b, _ := pr.JSON["active"].(bool); !b {
			primerFailed++
		}
	}
	// ... or X's own request on the same endpoint and grant: the full credential of its registered method (everything in
	// the request body) and an artefact of its own. Whatever a handler keeps from it (a pooled request struct, a cached
	// client or credential) is X's, so the case's request - which may omit or garble the credential - follows it directly.
	if c.Prev >= 4 {
		pIss := issuerURL
		if c.Prev == 5 {
			pIss = otherTenant(issuerURL)
		}
		pf := artefact(id+"-0", id, id, pIss, 0)
		if c.Endpoint == eToken && c.Grant != gMissing {
			pf.Set("grant_type", grantV[artGrant])
		}
		var basic []string
		switch c.Reg.Meth {
		case 0, 4:
			basic = []string{url.QueryEscape(id), url.QueryEscape(secret)}
		case 1:
			pf.Set("client_id", id)
			pf.Set("client_secret", secret)
		case 2:
			pf.Set("client_assertion_type", oidc.ClientAssertionTypeJWTAssertion)
			pf.Set("client_assertion", signAssertion(rightKey, id, []string{pIss}))
		default:
			pf.Set("client_id", id)
		}
		rq := httptest.NewRequest(http.MethodPost, pIss+path, strings.NewReader(pf.Encode()))
		rq.Header.Set("Content-Type", "application/x-www-form-urlencoded")
		if basic != nil {
			rq.SetBasicAuth(basic[0], basic[1])
		}
		pr := opfix.Do(w.handler(c), rq)
		selfPrimers++
		if pr.Status >= 200 && pr.Status < 300 {
			selfPrimerOK++
		}
	}
	// what exists before the case's request: only what it creates counts as its doing
	tokensBefore, devicesBefore := map[string]bool{}, map[string]bool{}
	for tid := range st.Tokens {
		tokensBefore[tid] = true
	}
	for dcode := range st.Devices {
		devicesBefore[dcode] = true
	}
	resp := opfix.Do(w.handler(c), req)

	o := outcome{Status: resp.Status, Panic: resp.Panic, Writes: resp.Writes, Body: resp.Body}
	if len(o.Body) > 160 {
		o.Body = o.Body[:160]
	}
	if resp.JSON != nil {
		o.Err, _ = resp.JSON["error"].(string)
		for _, k := range []string{"access_token", "id_token", "refresh_token", "device_code", "user_code"} {
			if s, _ := resp.JSON[k].(string); s != "" {
				o.Tok = true
			}
		}
		if b, _ := resp.JSON["active"].(bool); b {
			o.Act = true
		}
	} else if o.Status >= 400 {
		o.Err = "\x00notjson"
	}
	if c.Endpoint == eRevoke && !st.RefreshLive(rt) {
		o.Act = true
	}
	// whom did the answer act for: the owner of a token or device code it created, of the token it
	// revoked, of the token it reported active
	for tid, t := range st.Tokens {
		if !tokensBefore[tid] {
			o.Who = t.ClientID
			if o.Who == "" {
				o.Who = t.Subject // jwt-bearer: the token belongs to the assertion's issuer
			}
		}
	}
	for dcode, d := range st.Devices {
		if !devicesBefore[dcode] {
			o.Who = d.State.ClientID
			// follow the device flow to its end: the user approves, then the client the request named in its body
			// (Y, with nothing but its id) and the client that authenticated (X, with the credential of its
			// registered method) poll the token endpoint of the same router
			st.Approve(d.UserCode, "alice")
			poll := func(f url.Values, basic []string) bool {
				f.Set("grant_type", grantV[gDevice])
				f.Set("device_code", dcode)
				rq := httptest.NewRequest(http.MethodPost, issuerURL+"/oauth/token", strings.NewReader(f.Encode()))
				rq.Header.Set("Content-Type", "application/x-www-form-urlencoded")
				if basic != nil {
					rq.SetBasicAuth(basic[0], basic[1])
				}
				pr := opfix.Do(w.handler(c), rq)
				t, _ := pr.JSON["access_token"].(string)
				return pr.Status == 200 && t != ""
			}
			if cross {
				o.PollOther = poll(url.Values{"client_id": {vid}}, nil)
			}
			switch c.Reg.Meth {
			case 0, 4:
				o.PollSelf = poll(url.Values{}, []string{url.QueryEscape(id), url.QueryEscape(secret)})
			case 1:
				o.PollSelf = poll(url.Values{"client_id": {id}, "client_secret": {secret}}, nil)
			case 2:
				o.PollSelf = poll(url.Values{"client_assertion_type": {oidc.ClientAssertionTypeJWTAssertion},
					"client_assertion": {signAssertion(rightKey, id, []string{issuerURL})}}, nil)
			default:
				o.PollSelf = poll(url.Values{"client_id": {id}}, nil)
			}
			if o.PollOther {
				o.Who = vid // whoever the record names: the other client got the tokens
			}
			break
		}
	}
	if o.Who == "" && o.Act {
		o.Who = owner
	}
	switch o.Who {
	case "":
		o.Who = "WNone"
	case id:
		o.Who = "WSelf"
	default:
		o.Who = "WOther"
	}
	return o
}

var errCtor = map[string]string{"": "ENone", "invalid_request": "EInvalidRequest", "invalid_client": "EInvalidClient", "invalid_grant": "EInvalidGrant",
	"unauthorized_client": "EUnauthorizedClient", "unsupported_grant_type": "EUnsupportedGrantType", "server_error": "EServerError",
	"access_denied": "EAccessDenied", "invalid_scope": "EInvalidScope", "\x00notjson": "ENotJSON"}

// the remaining error codes the library can produce (pkg/oidc/error.go); anything else is ENotOAuth
var oauthVocabulary = map[string]bool{"invalid_target": true, "unsupported_response_type": true, "interaction_required": true, "login_required": true,
	"account_selection_required": true, "consent_required": true, "invalid_request_uri": true, "invalid_request_object": true,
	"request_not_supported": true, "request_uri_not_supported": true, "registration_not_supported": true,
	"authorization_pending": true, "slow_down": true, "expired_token": true, "temporarily_unavailable": true}

func (o outcome) coq() string {
	if o.Panic != "" {
		return "OPanic"
	}
	if o.Writes > 1 {
		return "ODouble"
	}
	cls := "S5"
	switch {
	case o.Status < 200:
		cls = "S1"
	case o.Status < 300:
		cls = "S2"
	case o.Status < 400:
		cls = "S3"
	case o.Status < 500:
		cls = "S4"
	}
	e, ok := errCtor[o.Err]
	if !ok {
		e = "ENotOAuth"
		if oauthVocabulary[o.Err] {
			e = "EOther"
		}
	}
	return emit.Ctor("ORes", cls, e, emit.Bool(o.Tok), emit.Bool(o.Act), o.Who)
}

// ---------------------------------------------------------------- generation

func allPres() []presT {
	ps := []presT{{Kind: pNone}, {Kind: pIDOnly}, {Kind: pBasicBadEsc}, {Kind: pBasicBadEsc, BadID: true}}
	for s := 0; s < 5; s++ {
		ps = append(ps, presT{Kind: pBasic, B: s}, presT{Kind: pBasic, B: s, Pct: true}, presT{Kind: pPost, P: s})
		for s2 := 0; s2 < 5; s2++ {
			if (s > sEmpty || s2 > sEmpty) && s != s2 && s != sRight && s2 != sRight {
				continue // blank / near-miss secrets are paired with themselves and with the right secret
			}
			ps = append(ps, presT{Kind: pBoth, B: s, P: s2})
		}
		ps = append(ps, presT{Kind: pNearID, Slot: 0, B: s}, presT{Kind: pNearID, Slot: 1, B: s})
	}
	ps = append(ps, presT{Kind: pNearID, Slot: 2, B: sEmpty})
	ps = append(ps, presT{Kind: pAssertTypeOnly}, presT{Kind: pAssertNoType}, presT{Kind: pAssertWrongType})
	for a := 0; a < 4; a++ {
		ps = append(ps, presT{Kind: pAssert, A: a}, presT{Kind: pAssertID, A: a})
	}
	return ps
}

var crossKinds = []int{pXBasic, pXAssert, pXPost, pXPostID, pXDup, pXSub}

// drawForms: the concrete strings and wire encodings behind the abstract presentation
func drawForms(r drv.Rand, p presT) presT {
	if isCross(p.Kind) {
		return p // the cross-client presentations send exact ids and secrets in the standard encoding (and rely on the parameter order)
	}
	p.BF, p.PF, p.IDF, p.AF = r.IntN(64), r.IntN(64), r.IntN(64), r.IntN(64)
	if p.Kind == pBasic || p.Kind == pBoth || p.Kind == pNearID {
		if p.Pct {
			p.Enc = 1
		} else if p.B >= sBlank || p.Kind == pNearID || r.Chance(1, 3) {
			p.Enc = r.IntN(3)
		}
		p.Pct = p.Enc != 0
	}
	if r.Chance(1, 3) {
		p.FEnc = 1 + r.IntN(2)
	}
	return p
}

// drawPres: one of the single-client presentations or (1 in 4) a cross-client one
func drawPres(r drv.Rand) presT {
	if r.Chance(1, 4) {
		return presT{Kind: drv.Pick(r, crossKinds), VM: r.IntN(5), VG: r.Bool(), IDF: r.IntN(64)}
	}
	return drawForms(r, drv.Pick(r, allPres()))
}

// drawSecKind: mostly a plain stored secret
func drawSecKind(r drv.Rand) int {
	if r.Chance(1, 5) {
		return 1 + r.IntN(len(secKindT)-1)
	}
	return 0
}

// drawPl: mostly everything in the body
func drawPl(r drv.Rand) plT {
	var p plT
	if r.Chance(1, 4) {
		p.Grant = 1 + r.IntN(3)
	}
	if r.Chance(1, 5) {
		p.Client = 1
	}
	if r.Chance(1, 5) {
		p.Art = 1
	}
	return p
}

func bits(n, k int) bool { return n>>k&1 == 1 }

func cfgOf(n int) cfgT {
	return cfgT{Post: bits(n, 0), PKJWT: bits(n, 1), Refresh: bits(n, 2), CC: bits(n, 3), TE: bits(n, 4), Dev: bits(n, 5), NoJP: bits(n, 6), Sub: bits(n, 7), Env: n >> 8 % len(envT)}
}

// grantOf(endpoint, grant): the grant whose registration matters for the case (-1: none)
func grantOf(e, g int) int {
	if e == eDeviceAuthz {
		return gDevice
	}
	if e == eToken && g < 7 {
		return g
	}
	return -1
}

func randomCase(r drv.Rand) caseT {
	var c caseT
	c.Router = r.IntN(2)
	switch x := r.IntN(10); {
	case x < 7:
		c.Endpoint = eToken
	default:
		c.Endpoint = 1 + r.IntN(3)
	}
	c.Grant = gMissing
	if c.Endpoint == eToken {
		// the six dispatched grants most of the time
		if r.Chance(9, 10) {
			c.Grant = r.IntN(6)
		} else {
			c.Grant = 6 + r.IntN(3)
			if c.Grant == gUnknown && r.Chance(2, 3) { // a near miss of a dispatched grant_type, with that grant's artefact
				c.GBase, c.GForm = r.IntN(6), 1+r.IntN(len(grantForms))
			}
		}
	}
	c.SecKind = drawSecKind(r)
	if r.Chance(1, 8) {
		c.IDKind = 1 + r.IntN(2)
	}
	// mostly-on configuration, each switch off with probability 1/4
	c.Cfg = cfgT{!r.Chance(1, 4), !r.Chance(1, 4), !r.Chance(1, 4), !r.Chance(1, 4), !r.Chance(1, 4), !r.Chance(1, 4), r.Chance(1, 4), r.Chance(1, 4), r.IntN(2) * r.IntN(len(envT)), r.Chance(1, 6)}
	c.Host = r.IntN(2)
	if c.Endpoint == eIntrospect || c.Endpoint == eRevoke || c.Endpoint == eToken && c.Grant == gBearer {
		if r.Chance(1, 4) {
			c.Art, c.ArtF = 1+r.IntN(2), r.IntN(64)
		}
	}
	c.Reg.Known = !r.Chance(1, 10)
	c.Reg.Meth, c.Reg.MV = r.IntN(5), r.IntN(64)
	c.Reg.App = r.IntN(3)
	for i := range c.Reg.Grants {
		c.Reg.Grants[i] = r.Bool()
	}
	if g := grantOf(c.Endpoint, c.Grant); g >= 0 {
		c.Reg.Grants[g] = !r.Chance(1, 4)
	}
	if c.GForm > 0 {
		c.Reg.Grants[c.GBase] = !r.Chance(1, 4)
	}
	c.Reg.HasKey = c.Reg.Meth == 2 && !r.Chance(1, 6) || c.Reg.Meth != 2 && r.Chance(1, 2)
	// presentation: the one fitting the registration half of the time, anything otherwise
	c.Pres = drawPres(r)
	c.Pl = drawPl(r)
	if r.Chance(1, 4) {
		c.Prev = 1 + r.IntN(4)
		if c.Prev == 4 && c.Cfg.Dyn && r.Bool() {
			c.Prev = 5
		}
	}
	if r.Bool() {
		switch c.Reg.Meth {
		case 0, 4:
			c.Pres = drawForms(r, presT{Kind: pBasic, Pct: r.Bool()})
		case 1:
			c.Pres = drawForms(r, drv.Pick(r, []presT{{Kind: pPost}, {Kind: pBasic}}))
		case 2:
			c.Pres = presT{Kind: pAssert}
		default:
			c.Pres = presT{Kind: pIDOnly}
		}
	}
	if isCross(c.Pres.Kind) || c.Pres.Kind == pBasicBadEsc {
		c.IDKind = 0 // these presentations send X's id as it is
	}
	return c
}

func full(grants ...int) [7]bool {
	var g [7]bool
	for i := range g {
		g[i] = true
	}
	for _, x := range grants {
		g[x] = false
	}
	return g
}

// directed cases: the inputs of the defects this check found (kept so they are reported again if they return)
func directed() []caseT {
	allOn := cfgT{true, true, true, true, true, true, false, false, 0, false}
	web := func(m int, gr [7]bool) regT { return regT{Known: true, Meth: m, App: 0, Grants: gr, HasKey: m == 2} }
	var cs []caseT
	// F03: malformed escape in the Basic header, the five legacy grant handlers of the Provider router
	for _, g := range []int{gCode, gRefresh, gCC, gTE, gBearer} {
		for _, bad := range []bool{false, true} {
			cs = append(cs, caseT{Router: 0, Endpoint: eToken, Cfg: allOn, Reg: web(0, full()), Pres: presT{Kind: pBasicBadEsc, BadID: bad}, Grant: g, Tag: "defect=F03"})
		}
	}
	// F21: Legacy router, device authorization for a client without the device grant
	cs = append(cs, caseT{Router: 1, Endpoint: eDeviceAuthz, Cfg: allOn, Reg: web(0, full(gDevice)), Pres: presT{Kind: pBasic}, Grant: gMissing, Tag: "defect=F21"})
	cs = append(cs, caseT{Router: 1, Endpoint: eDeviceAuthz, Cfg: allOn, Reg: regT{Known: true, Meth: 3, App: 1, Grants: full(gDevice)}, Pres: presT{Kind: pIDOnly}, Grant: gMissing, Tag: "defect=F21"})
	// F22: Provider router, token exchange for a client without that grant
	cs = append(cs, caseT{Router: 0, Endpoint: eToken, Cfg: allOn, Reg: web(0, full(gTE)), Pres: presT{Kind: pBasic}, Grant: gTE, Tag: "defect=F22"})
	// Fxx-C05-1: client_secret_post client while AuthMethodPost is off: client_credentials (both routers), token exchange (Provider)
	noPost := allOn
	noPost.Post = false
	for _, rt := range []int{0, 1} {
		cs = append(cs, caseT{Router: rt, Endpoint: eToken, Cfg: noPost, Reg: web(1, full()), Pres: presT{Kind: pPost}, Grant: gCC, Tag: "defect=Fxx-C05-1"})
		cs = append(cs, caseT{Router: rt, Endpoint: eToken, Cfg: noPost, Reg: web(1, full()), Pres: presT{Kind: pBasic}, Grant: gCC, Tag: "defect=Fxx-C05-1"})
	}
	cs = append(cs, caseT{Router: 0, Endpoint: eToken, Cfg: noPost, Reg: web(1, full()), Pres: presT{Kind: pBasic}, Grant: gTE, Tag: "defect=Fxx-C05-1"})
	// Fxx-C05-4 (recorded): Provider router, device token, grant not registered. Fxx-C05-2: secret-registered native client without its secret;
	// client_secret_post client with AuthMethodPost off; assertion by a client_secret_basic client
	cs = append(cs, caseT{Router: 0, Endpoint: eToken, Cfg: allOn, Reg: regT{Known: true, Meth: 3, App: 1, Grants: full(gDevice)}, Pres: presT{Kind: pIDOnly}, Grant: gDevice, Tag: "defect=Fxx-C05-4"})
	cs = append(cs, caseT{Router: 0, Endpoint: eToken, Cfg: allOn, Reg: regT{Known: true, Meth: 0, App: 1, Grants: full()}, Pres: presT{Kind: pIDOnly}, Grant: gDevice, Tag: "defect=Fxx-C05-2"})
	cs = append(cs, caseT{Router: 0, Endpoint: eToken, Cfg: noPost, Reg: web(1, full()), Pres: presT{Kind: pBasic}, Grant: gDevice, Tag: "defect=Fxx-C05-2"})
	cs = append(cs, caseT{Router: 0, Endpoint: eToken, Cfg: allOn, Reg: regT{Known: true, Meth: 0, App: 0, Grants: full(), HasKey: true}, Pres: presT{Kind: pAssert}, Grant: gDevice, Tag: "defect=Fxx-C05-2"})
	// Fxx-C05-3: LegacyServer router, token exchange by a public client that only names itself
	cs = append(cs, caseT{Router: 1, Endpoint: eToken, Cfg: allOn, Reg: regT{Known: true, Meth: 3, App: 1, Grants: full()}, Pres: presT{Kind: pIDOnly}, Grant: gTE, Tag: "defect=Fxx-C05-3"})
	return cs
}

// systematic: run in both tiers. (1) every router x endpoint/grant x auth method x application type with
// everything enabled and registered, once with the credential fitting the method and once with client_id only;
// (2) every router x endpoint/grant x cross-client presentation x auth method of the second client, for a basic and a
// private_key_jwt client X; (3) every router x endpoint/grant x placement of grant_type / client parameters / artefact.
func systematic() []caseT {
	allOn := cfgT{true, true, true, true, true, true, false, false, 0, false}
	var cs []caseT
	rot := 0 // rotates through the concrete near-miss forms
	type eg struct{ e, g int }
	egs := []eg{{eToken, gCode}, {eToken, gRefresh}, {eToken, gCC}, {eToken, gBearer}, {eToken, gTE}, {eToken, gDevice},
		{eIntrospect, gMissing}, {eRevoke, gMissing}, {eDeviceAuthz, gMissing}}
	fitting := []presT{{Kind: pBasic}, {Kind: pPost}, {Kind: pAssert}, {Kind: pIDOnly}, {Kind: pBasic}}
	mv := 0 // rotates through the AuthMethod() values outside the four constants
	for router := 0; router < 2; router++ {
		for _, x := range egs {
			for meth := 0; meth < 5; meth++ {
				for app := 0; app < 3; app++ {
					mv++
					rg := regT{Known: true, Meth: meth, MV: mv, App: app, Grants: full(), HasKey: meth == 2}
					cs = append(cs, caseT{Router: router, Endpoint: x.e, Grant: x.g, Cfg: allOn, Reg: rg, Pres: fitting[meth], Tag: "block=method_x_app"})
					if meth != 3 {
						cs = append(cs, caseT{Router: router, Endpoint: x.e, Grant: x.g, Cfg: allOn, Reg: rg, Pres: presT{Kind: pIDOnly}, Tag: "block=method_x_app"})
					}
				}
			}
			// (1b) every auth method with its fitting credential against: the grant at stake not registered; its provider flag /
			// storage capability off; the flag of the client's own method off; the client's key missing
			for meth := 0; meth < 5; meth++ {
				mv++
				base := regT{Known: true, Meth: meth, MV: mv, App: 0, Grants: full(), HasKey: meth == 2}
				blk := func(cf cfgT, rg regT) {
					cs = append(cs, caseT{Router: router, Endpoint: x.e, Grant: x.g, Cfg: cf, Reg: rg, Pres: fitting[meth], Tag: "block=method_x_refusal"})
				}
				if gg := grantOf(x.e, x.g); gg >= 0 {
					rg := base
					rg.Grants = full(gg)
					blk(allOn, rg)
					rg.Grants = [7]bool{} // registered for no grant at all
					blk(allOn, rg)
				}
				off := allOn
				switch grantOf(x.e, x.g) {
				case gRefresh:
					off.Refresh = false
				case gCC:
					off.CC = false
				case gTE:
					off.TE = false
				case gDevice:
					off.Dev = false
				}
				if off != allOn {
					blk(off, base)
				}
				switch meth {
				case 1:
					off = allOn
					off.Post = false
					blk(off, base)
				case 2:
					off = allOn
					off.PKJWT = false
					blk(off, base)
					rg := base
					rg.HasKey = false
					blk(allOn, rg)
				}
			}
			for _, k := range crossKinds {
				for _, meth := range []int{0, 2} {
					for vm := 0; vm < 5; vm++ {
						for _, vg := range []bool{true, false} {
							rg := regT{Known: true, Meth: meth, App: 0, Grants: full(), HasKey: true}
							cs = append(cs, caseT{Router: router, Endpoint: x.e, Grant: x.g, Cfg: allOn, Reg: rg, Pres: presT{Kind: k, VM: vm, VG: vg, IDF: len(cs)}, Tag: "block=cross_client"})
						}
					}
				}
			}
			// (4) hollow and partial credentials, as the first request and right after a fully credentialed request of
			// a third client (assertion / Basic), for a basic, a private_key_jwt and a public client X
			hollow := []presT{{Kind: pNone}, {Kind: pIDOnly}, {Kind: pBasic, B: 2}, {Kind: pPost, P: 2}, {Kind: pAssertTypeOnly}, {Kind: pAssertNoType}, {Kind: pAssertWrongType}}
			for _, meth := range []int{0, 2, 3} {
				for _, pr := range hollow {
					for _, prev := range []int{0, 1, 2, 4} {
						if prev == 2 && pr.Kind > pIDOnly {
							continue
						}
						rg := regT{Known: true, Meth: meth, App: 0, Grants: full(), HasKey: true}
						cs = append(cs, caseT{Router: router, Endpoint: x.e, Grant: x.g, Cfg: allOn, Reg: rg, Pres: pr, Prev: prev, Tag: "block=hollow_and_sequence"})
					}
				}
				// right after X's own fully credentialed request: the same request with a wrong / blank / near-miss secret
				// (what a result cache keyed by the client id alone, or a struct reused without reset, would let through)
				for _, pr := range []presT{{Kind: pBasic, B: sWrong}, {Kind: pPost, P: sWrong}, {Kind: pBasic, B: sBlank, Enc: 2, Pct: true}, {Kind: pPost, P: sNear},
					{Kind: pNearID, Slot: 1, B: sEmpty}, {Kind: pAssert, A: 1}} {
					pr.BF, pr.PF, pr.IDF = rot, rot, rot
					rot++
					rg := regT{Known: true, Meth: meth, App: 0, Grants: full(), HasKey: true}
					cs = append(cs, caseT{Router: router, Endpoint: x.e, Grant: x.g, Cfg: allOn, Reg: rg, Pres: pr, Prev: 4, Tag: "block=hollow_and_sequence"})
				}
			}
			// (5) white space and near misses: for every auth method of X, in the Basic header and in the form, a secret that
			// is white space only, a near miss of the right secret (accept side: must be refused like any wrong secret), a
			// keyword-like wrong secret, and a near miss of X's id next to X's exact secret / with no secret. The concrete
			// string and wire encoding rotate through all forms over the block.
			for meth := 0; meth < 5; meth++ {
				mv++
				rg := regT{Known: true, Meth: meth, MV: mv, App: 0, Grants: full(), HasKey: meth == 2}
				nm := func(p presT) {
					p.BF, p.PF, p.IDF, p.AF = rot, rot, rot, rot
					rot++
					p.Pct = p.Enc != 0
					cs = append(cs, caseT{Router: router, Endpoint: x.e, Grant: x.g, Cfg: allOn, Reg: rg, Pres: p, Tag: "block=near_miss"})
				}
				for enc := 0; enc < 3; enc++ {
					nm(presT{Kind: pBasic, B: sBlank, Enc: enc})
					nm(presT{Kind: pBasic, B: sNear, Enc: enc})
					nm(presT{Kind: pNearID, Slot: 0, B: sRight, Enc: enc})
					nm(presT{Kind: pPost, P: sBlank, FEnc: enc})
					nm(presT{Kind: pPost, P: sNear, FEnc: enc})
					nm(presT{Kind: pNearID, Slot: 1, B: []int{sRight, sEmpty, sRight}[enc], FEnc: enc})
				}
				nm(presT{Kind: pBasic, B: sWrong, Enc: rot % 3})
				nm(presT{Kind: pPost, P: sWrong})
				nm(presT{Kind: pBoth, B: sBlank, P: sBlank, Enc: rot % 3})
				nm(presT{Kind: pNearID, Slot: 2, B: sEmpty})
				// strings that percent-decode once more to the right secret / id, in the form and in the header
				nmf := func(p presT, form string) {
					p.BF, p.PF, p.IDF = formIndex(nearForms, form), formIndex(nearForms, form), formIndex(idForms, form)
					p.Pct = p.Enc != 0
					cs = append(cs, caseT{Router: router, Endpoint: x.e, Grant: x.g, Cfg: allOn, Reg: rg, Pres: p, SecKind: []int{0, 4, 5}[rot%3], Tag: "block=near_miss"})
					rot++
				}
				nmf(presT{Kind: pPost, P: sNear}, "once_pct_first")
				nmf(presT{Kind: pPost, P: sNear, FEnc: 1}, "once_pct_all")
				nmf(presT{Kind: pPost, P: sNear}, "once_plus")
				nmf(presT{Kind: pBasic, B: sNear, Enc: 2}, "once_pct_lower")
				nmf(presT{Kind: pBasic, B: sNear}, "once_plus")
				nmf(presT{Kind: pNearID, Slot: 1, B: sRight}, "once_pct_first")
				nmf(presT{Kind: pNearID, Slot: 0, B: sRight, Enc: 1}, "once_pct_all")
				nm(presT{Kind: pAssert, A: 2})
				nm(presT{Kind: pAssertWrongType})
			}
			// (7) Client.AuthMethod() returns a value outside the library's four constants (unset, client_secret_jwt, tls_client_auth,
			// unknown strings, case variants of the constants) for a client WITH a stored secret: every value x the right secret in
			// the header / in the form, client_id only, a wrong secret, a hollow Basic password
			for v := range methOther {
				rg := regT{Known: true, Meth: 4, MV: v, App: v % 3, Grants: full(), HasKey: v%2 == 0}
				for _, pr := range []presT{{Kind: pBasic}, {Kind: pPost}, {Kind: pIDOnly}, {Kind: pBasic, B: sWrong}, {Kind: pBasic, B: sEmpty}} {
					cs = append(cs, caseT{Router: router, Endpoint: x.e, Grant: x.g, Cfg: allOn, Reg: rg, Pres: pr, Tag: "block=method_value"})
				}
			}
			// (8) the provider object handed to NewLegacyServer lacks the optional method JWTProfileVerifier (every optional
			// interface the LegacyServer type-asserts on its provider): assertions valid / wrong / junk, with and without
			// client_id, the fitting credential, an assertion of X next to the id of a secretless Y
			bare := allOn
			bare.NoJP = true
			for meth := 0; meth < 5 && router == 1; meth++ {
				mv++
				rg := regT{Known: true, Meth: meth, MV: mv, App: 0, Grants: full(), HasKey: meth == 2 || meth == 0}
				for _, pr := range []presT{fitting[meth], {Kind: pAssert}, {Kind: pAssertID}, {Kind: pAssertID, A: 3}, {Kind: pAssertID, A: 1}, {Kind: pAssert, A: 3},
					{Kind: pAssertNoType}, {Kind: pXAssert, VM: 3, VG: true}, {Kind: pXAssert, VM: 2, VG: true}, {Kind: pAssertTypeOnly}} {
					pr.AF = len(cs)
					cs = append(cs, caseT{Router: 1, Endpoint: x.e, Grant: x.g, Cfg: bare, Reg: rg, Pres: pr, Tag: "block=bare_provider"})
				}
			}
			// (9) the provider's JWT profile verifier is built with a custom SubjectCheck that lets iss != sub pass: an assertion issued
			// and signed by X whose subject is a second registered client Y (the artefact is Y's) - with the default check too -,
			// and the ordinary credentials under that verifier
			subj := allOn
			subj.Sub = true
			for _, meth := range []int{2, 0} {
				rg := regT{Known: true, Meth: meth, App: 0, Grants: full(), HasKey: true}
				for _, vm := range []int{2, 3, 0} {
					for _, cf := range []cfgT{subj, allOn} {
						cs = append(cs, caseT{Router: router, Endpoint: x.e, Grant: x.g, Cfg: cf, Reg: rg, Pres: presT{Kind: pXSub, VM: vm, VG: true}, Tag: "block=subject_check"})
					}
				}
				cs = append(cs, caseT{Router: router, Endpoint: x.e, Grant: x.g, Cfg: subj, Reg: rg, Pres: presT{Kind: pXAssert, VM: 2, VG: true}, Tag: "block=subject_check"})
			}
			for meth := 0; meth < 5; meth++ {
				mv++
				rg := regT{Known: true, Meth: meth, MV: mv, App: 0, Grants: full(), HasKey: meth == 2}
				cs = append(cs, caseT{Router: router, Endpoint: x.e, Grant: x.g, Cfg: subj, Reg: rg, Pres: fitting[meth], Tag: "block=subject_check"})
			}
			// (10) mixed placement (RFC 6749 3.2.1 allows client_id in the body next to HTTP Basic): the right / a wrong secret in the
			// Basic header and client_id repeated in the body or the URL query, without client_secret, with an empty one, with a
			// wrong one - Basic takes precedence on every handler of both routers
			for _, meth := range []int{0, 1, 4, 2, 3} {
				mv++
				rg := regT{Known: true, Meth: meth, MV: mv, App: 0, Grants: full(), HasKey: meth == 2}
				for _, plc := range []int{0, 1} {
					for _, pr := range []presT{{Kind: pBoth, B: sRight, P: sEmpty, PF: 1}, {Kind: pBoth, B: sRight, P: sEmpty, PF: 0}, {Kind: pBoth, B: sRight, P: sWrong},
						{Kind: pBoth, B: sWrong, P: sEmpty, PF: 1}, {Kind: pBoth, B: sWrong, P: sRight}} {
						pr.Enc = (len(cs) + plc) % 3
						pr.Pct = pr.Enc != 0
						cs = append(cs, caseT{Router: router, Endpoint: x.e, Grant: x.g, Cfg: allOn, Reg: rg, Pres: pr, Pl: plT{Client: plc}, Tag: "block=basic_and_form_id"})
					}
				}
			}
			// (11) the rest of the provider configuration (SupportedScopes with / without offline_access and with the names of grants
			// and auth methods, SupportedClaims, CodeMethodS256, RequestObjectSupported, back-channel logout, device authorization
			// settings) x every flag / capability off, and everything on: a disabled grant or method stays disabled whatever the
			// surrounding configuration says
			for env := 1; env < len(envT); env++ {
				offs := []cfgT{allOn}
				for k := 0; k < 6; k++ {
					o := allOn
					*[]*bool{&o.Post, &o.PKJWT, &o.Refresh, &o.CC, &o.TE, &o.Dev}[k] = false
					offs = append(offs, o)
				}
				for _, cf := range offs {
					cf.Env = env
					for _, meth := range []int{0, 1, 2, 3} {
						rg := regT{Known: true, Meth: meth, App: 0, Grants: full(), HasKey: meth == 2}
						cs = append(cs, caseT{Router: router, Endpoint: x.e, Grant: x.g, Cfg: cf, Reg: rg, Pres: fitting[meth], Tag: "block=config_rest"})
					}
				}
			}
			// (12) where the secret travels x Config.AuthMethodPost (round 11): the exact secret in the Authorization header, as a form
			// parameter (body / URL query), in both, in the form next to a wrong Basic password, and a wrong form secret - for a
			// client registered client_secret_basic, client_secret_post and with a method outside the constants, with the
			// provider's AuthMethodPost on and off ("correct secret via Basic or - if enabled - POST")
			for _, meth := range []int{0, 1, 4} {
				mv++
				rg := regT{Known: true, Meth: meth, MV: mv, App: 0, Grants: full(), HasKey: false}
				for _, post := range []bool{true, false} {
					cf := allOn
					cf.Post = post
					for _, pp := range []struct {
						pr  presT
						plc int
					}{{presT{Kind: pBasic}, 0}, {presT{Kind: pPost}, 0}, {presT{Kind: pPost}, 1}, {presT{Kind: pBoth, B: sRight, P: sRight}, 0},
						{presT{Kind: pBoth, B: sWrong, P: sRight}, 0}, {presT{Kind: pPost, P: sWrong}, 0}, {presT{Kind: pPost, FEnc: 1}, 0}} {
						cs = append(cs, caseT{Router: router, Endpoint: x.e, Grant: x.g, Cfg: cf, Reg: rg, Pres: pp.pr, Pl: plT{Client: pp.plc}, Tag: "block=secret_transport"})
					}
				}
			}
			// (13) reserved characters in the registered secret and client id x wire encoding (round 11). Accept side: the exact
			// secret / id with white space, "+", "%", "&" ... in it, form-encoded in the Basic header (%XX; url.QueryEscape:
			// space as "+") and in the form. Reject side: the strings a decoder that treats "+" or "%" differently would
			// confuse with it - a space where the registered string has "+" (sent as "+"), "+" where it has a space (sent
			// as %2B), for the secret and for the id
			for mi, meth := range []int{0, 1} {
				if mi == 0 && rot%3 == 0 {
					meth = 4
				}
				mv++
				rg := regT{Known: true, Meth: meth, MV: mv, App: 0, Grants: full(), HasKey: false}
				for _, kd := range [][2]int{{4, 0}, {5, 0}, {6, 0}, {0, 1}, {0, 2}, {6, 1}} {
					sk, ik := kd[0], kd[1]
					rc := func(p presT, form string) {
						if form != "" {
							p.BF, p.PF, p.IDF = formIndex(nearForms, form), formIndex(nearForms, form), formIndex(idForms, form)
						}
						p.Pct = p.Enc != 0
						cs = append(cs, caseT{Router: router, Endpoint: x.e, Grant: x.g, Cfg: allOn, Reg: rg, Pres: p, SecKind: sk, IDKind: ik, Tag: "block=reserved_chars"})
						rot++
					}
					rc(presT{Kind: pBasic, Enc: 1}, "")
					rc(presT{Kind: pBasic, Enc: 2}, "")
					rc(presT{Kind: pPost, FEnc: rot % 3}, "")
					if sk == 5 || sk == 6 {
						rc(presT{Kind: pBasic, B: sNear, Enc: 2}, "plus_to_space")
						rc(presT{Kind: pPost, P: sNear, FEnc: rot % 2}, "plus_to_space")
					}
					if sk == 4 || sk == 5 {
						rc(presT{Kind: pBasic, B: sNear, Enc: 1 + rot%2}, "once_plus")
						rc(presT{Kind: pPost, P: sNear}, "once_plus")
					}
					if ik == 1 {
						rc(presT{Kind: pNearID, Slot: 0, B: sRight, Enc: 2}, "plus_to_space")
						rc(presT{Kind: pNearID, Slot: 1, B: sRight}, "plus_to_space")
					}
					if ik == 2 {
						rc(presT{Kind: pNearID, Slot: 0, B: sRight, Enc: 1 + rot%2}, "once_plus")
						rc(presT{Kind: pNearID, Slot: 1, B: sRight}, "once_plus")
					}
				}
			}
			// (14) the state of the token x the credential (round 11): introspection, revocation and the jwt-bearer grant with a token /
			// grant assertion that does not decode, or that is well formed and names nothing live (unknown id, expired, addressed to
			// another issuer), for every auth method x {fitting credential, nothing, client_id only, wrong Basic secret, wrong form
			// secret, empty Basic password, assertion signed by another key, unknown client}. The caller is authenticated first:
			// a token fault next to a credential fault is the credential's refusal, never a success document
			if x.e == eIntrospect || x.e == eRevoke || x.g == gBearer {
				for meth := 0; meth < 5; meth++ {
					mv++
					rg := regT{Known: true, Meth: meth, MV: mv, App: 0, Grants: full(), HasKey: meth == 2 || x.g == gBearer}
					unknown := rg
					unknown.Known = false
					for art := 1; art <= 2; art++ {
						ts := func(rg regT, pr presT) {
							pr.BF, pr.PF = rot, rot
							cs = append(cs, caseT{Router: router, Endpoint: x.e, Grant: x.g, Cfg: allOn, Reg: rg, Pres: pr, Art: art, ArtF: rot, Tag: "block=token_state"})
							rot++
						}
						ts(rg, fitting[meth])
						if x.g == gBearer {
							ts(rg, fitting[meth]) // a second form of the faulty grant assertion; the jwt-bearer grant reads no client credential
							ts(rg, presT{Kind: pNone})
							continue
						}
						for _, pr := range []presT{{Kind: pNone}, {Kind: pIDOnly}, {Kind: pBasic, B: sWrong}, {Kind: pPost, P: sWrong}, {Kind: pBasic, B: sEmpty},
							{Kind: pAssert, A: 1}, {Kind: pBasic, B: sNear}} {
							ts(rg, pr)
						}
						ts(unknown, presT{Kind: pBasic})
						ts(unknown, presT{Kind: pIDOnly})
					}
				}
			}
			// (15) a provider that derives its issuer from the request's host (op.IssuerFromHost: one instance, many tenants): on
			// each of two hosts a client assertion addressed to this host's issuer (valid), to the OTHER host's issuer (must be
			// refused), the fitting credential of a basic client - as the first request and right after X's own valid request at
			// the other host (whatever the instance keeps from that request - a verifier, an issuer - belongs to the other tenant);
			// the jwt-bearer grant with a grant assertion addressed to the other tenant
			dyn := allOn
			dyn.Dyn = true
			for _, prev := range []int{5, 0} {
				for host := 0; host < 2; host++ {
					pk := regT{Known: true, Meth: 2, App: 0, Grants: full(), HasKey: true}
					bk := regT{Known: true, Meth: 0, App: 0, Grants: full(), HasKey: true}
					ph := func(rg regT, pr presT, art int) {
						pr.AF = formIndex(audForms, "other_tenant")
						cs = append(cs, caseT{Router: router, Endpoint: x.e, Grant: x.g, Cfg: dyn, Host: host, Reg: rg, Pres: pr, Prev: prev,
							Art: art, ArtF: 2, Tag: "block=issuer_per_host"})
					}
					if x.g == gBearer {
						ph(pk, presT{Kind: pNone}, 0)
						ph(pk, presT{Kind: pNone}, 2) // ArtF 2 = aud_other_tenant
						continue
					}
					ph(pk, presT{Kind: pAssert, A: 0}, 0)
					ph(pk, presT{Kind: pAssert, A: 2}, 0)
					ph(pk, presT{Kind: pAssertID, A: 2}, 0)
					ph(bk, presT{Kind: pAssert, A: 2}, 0) // a basic client with a registered key (introspection / revocation accept its assertion)
					ph(bk, presT{Kind: pBasic}, 0)
				}
			}
			// (6) near misses of the grant_type value itself (other case, surrounding white space, keyword), with the artefact
			// and the registration of the real grant and a fitting credential
			if x.e == eToken {
				for gf := 1; gf <= len(grantForms); gf++ {
					rg := regT{Known: true, Meth: gf % 2 * 3, App: 0, Grants: full(), HasKey: true}
					cs = append(cs, caseT{Router: router, Endpoint: eToken, Grant: gUnknown, GBase: x.g, GForm: gf, Cfg: allOn, Reg: rg,
						Pres: fitting[rg.Meth], Tag: "block=near_miss_grant_type"})
				}
			}
			// (3) where the parameters travel: one dimension moved at a time, client registered for the grant at
			// stake or not, secret in the header or in the form
			pls := []plT{{1, 0, 0}, {2, 0, 0}, {3, 0, 0}, {0, 1, 0}, {0, 0, 1}, {1, 1, 1}}
			for _, pl := range pls {
				if x.e != eToken && pl.Grant != 0 && pl.Client == 0 {
					continue // no grant_type on the other endpoints
				}
				for _, regd := range []bool{true, false} {
					for _, pr := range []presT{{Kind: pBasic}, {Kind: pPost}} {
						gr := full()
						if gg := grantOf(x.e, x.g); gg >= 0 {
							gr[gg] = regd
						} else if !regd {
							continue
						}
						rg := regT{Known: true, Meth: pr.Kind / pPost, App: 0, Grants: gr, HasKey: true}
						cs = append(cs, caseT{Router: router, Endpoint: x.e, Grant: x.g, Cfg: allOn, Reg: rg, Pres: pr, Pl: pl, Tag: "block=placement"})
					}
				}
			}
		}
	}
	return cs
}

// enumerate: the whole cross product with two reductions that lose no decision: of the grant set only the
// membership of the grant at stake is enumerated (the other six are drawn), and of the six switches the three
// provider flags are enumerated while the capability at stake is enumerated and the other two are drawn.
func enumerate(r drv.Rand, emitCase func(caseT)) {
	ps := allPres()
	for _, k := range crossKinds {
		ps = append(ps, presT{Kind: k})
	}
	for router := 0; router < 2; router++ {
		for e := 0; e < 4; e++ {
			grants := []int{gMissing}
			if e == eToken {
				// device_code first: the recorded finding Fxx-C05-4 makes some of these cases violate the predicate, and
				// a shard that reports a case id above ~31000 overflows coqc's stack (ids are unary nats)
				grants = []int{5, 0, 1, 2, 3, 4, 6, 7, 8}
			}
			for _, g := range grants {
				for meth := 0; meth < 5; meth++ {
					for app := r.IntN(3); app < 3; app += 3 { // drawn: no guard of the repaired code reads the application type
						for _, p := range ps {
							for flags := 0; flags < 8; flags++ {
								for v := 0; v < 8; v++ { // v: known/registered/key/capability variants
									c := caseT{Router: router, Endpoint: e, Grant: g, Pres: drawForms(r, p), Pl: drawPl(r), SecKind: drawSecKind(r)}
									if !isCross(p.Kind) && p.Kind != pBasicBadEsc && r.Chance(1, 8) {
										c.IDKind = 1 + r.IntN(2)
									}
									c.Pres.VM, c.Pres.VG = r.IntN(5), r.Bool()
									if r.Chance(1, 4) {
										c.Prev = 1 + r.IntN(4)
									}
									if g == gUnknown && r.Chance(2, 3) {
										c.GBase, c.GForm = r.IntN(6), 1+r.IntN(len(grantForms))
									}
									c.Cfg = cfgT{bits(flags, 0), bits(flags, 1), bits(flags, 2), r.Bool(), r.Bool(), r.Bool(), r.Chance(1, 3), r.Chance(1, 3), r.IntN(2) * r.IntN(len(envT)), r.Chance(1, 6)}
									c.Host = r.IntN(2)
									if (e == eIntrospect || e == eRevoke || e == eToken && g == gBearer) && r.Chance(1, 4) {
										c.Art, c.ArtF = 1+r.IntN(2), r.IntN(64)
									}
									if c.Prev == 4 && c.Cfg.Dyn && r.Bool() {
										c.Prev = 5
									}
									capOn := bits(v, 0)
									switch grantOf(e, g) {
									case gCC:
										c.Cfg.CC = capOn
									case gTE:
										c.Cfg.TE = capOn
									case gDevice:
										c.Cfg.Dev = capOn
									default:
										if !capOn {
											continue
										}
									}
									c.Reg = regT{Known: true, Meth: meth, MV: r.IntN(64), App: app, HasKey: bits(v, 1)}
									for i := range c.Reg.Grants {
										c.Reg.Grants[i] = r.Bool()
									}
									if gg := grantOf(e, g); gg >= 0 {
										c.Reg.Grants[gg] = bits(v, 2)
									} else if !bits(v, 2) {
										continue
									}
									emitCase(c)
								}
							}
							// unknown client: once per presentation
							c := caseT{Router: router, Endpoint: e, Grant: g, Pres: drawForms(r, p), Pl: drawPl(r), Cfg: cfgOf(r.IntN(64) | 7*r.IntN(2))}
							c.Pres.VM, c.Pres.VG = r.IntN(5), r.Bool()
							c.Reg = regT{Known: false, Meth: meth, App: app, HasKey: r.Bool()}
							emitCase(c)
						}
					}
				}
			}
		}
	}
}

func main() {
	cfg := drv.Parse()
	r := drv.NewRand(cfg.Seed)
	shard := 0 // quick: spread over 16 coqc processes
	if !cfg.Quick && cfg.N == 0 {
		shard = 500 // thorough: coqc needs ~1.2 GB per 1000 cases, 12 run at once
	}
	w := emit.NewWriter(cfg.Out, "C05_spec", shard, cfg.Only)

	add := func(c caseT) {
		var o outcome
		p := drv.Catch(func() { o = run(c) })
		if p != "" {
			o.Panic = p
		}
		w.Add(emit.Case{Input: c.coq(), Observed: o.coq(), Tags: c.tags(),
			Human: map[string]any{"status": o.Status, "error": strings.TrimPrefix(o.Err, "\x00"), "token": o.Tok, "active_or_revoked": o.Act, "panic": o.Panic, "body": o.Body, "acted_for": o.Who, "device_poll_other": o.PollOther, "device_poll_self": o.PollSelf}})
	}
	for _, c := range directed() {
		add(c)
	}
	for _, c := range systematic() {
		add(c)
	}
	exhaustive := false
	if cfg.Quick || cfg.N > 0 {
		n := cfg.Count(700, 0)
		for i := 0; i < n; i++ {
			add(randomCase(r))
		}
	} else {
		exhaustive = true
		enumerate(r, add)
	}
	if labelErrors > 0 {
		fmt.Fprintln(os.Stderr, "driver: ", labelErrors, "Basic headers whose wire form contradicts the abstract kind of the case")
		os.Exit(2)
	}
	err := w.Close(emit.Meta{Property: "C05", Tier: cfg.Tier, Seed: cfg.Seed, Exhaustive: exhaustive,
		Extra: map[string]any{"primer_requests_not_answered_active": primerFailed, "self_primer_requests": selfPrimers, "self_primer_requests_answered_2xx": selfPrimerOK, "basic_label_errors": labelErrors},
		Rule:  "one HTTP request per case against the Provider or the LegacyServer router over refstore, with an otherwise valid grant (code+PKCE, refresh token, device code, subject token, key-signed assertion) prepared in an emptied store for the case's client X - or, for the four cross-client presentations, for a second confidential client Y whose id the request mixes with X's valid credential; varied: registration (auth method, grant set, app type, key, known), presented credential (20 forms), grant_type (9), provider flags and storage capabilities (6 switches), endpoint (4); observed also: the client the answer acted for (owner of the created token / device code, of the revoked or active token). Both tiers: directed defect inputs + systematic blocks (router x endpoint/grant x auth method x application type with fitting credential and with client_id only; router x endpoint/grant x cross-client presentation). Round 5: secrets are right / wrong / empty / white space only / a near miss of the right one, ids exact or a near miss (surrounding white space, other case, case-fold twins, trailing slash, one byte more or fewer, keyword literals), each kind in many concrete strings and wire encodings (raw, %XX, + ; tags basic_secret, form_secret, id_form, basic_enc, form_enc), stored secrets plain / 1-4 KiB long / with white space or reserved characters (stored_secret), near misses of the grant_type value (grant_form), and cases that follow X's own fully credentialed request on the same endpoint (prev=self); blocks near_miss, near_miss_grant_type, method_x_refusal. Round 6: a fifth auth-method class - AuthMethod() returns one of 13 values outside the library's constants (unset, client_secret_jwt, tls_client_auth, unknown, case variants; tag meth_value) for a client with a stored secret (block method_value) - and the LegacyServer built over a provider object that hides the optional method JWTProfileVerifier (7th switch, tag jwtprofile_method; block bare_provider), client_id next to an assertion, junk assertions. Round 7: secrets / ids that percent-decode one more time to the registered value (forms once_*), both routers built over a provider wrapper whose JWT profile verifier has a permissive SubjectCheck (8th switch, tag subject_check) and assertions of X whose subject is a second registered client (block subject_check). Round 8: Basic next to client_id in body / query (block basic_and_form_id). Round 9: the rest of op.Config (SupportedScopes with / without offline_access, claims, S256, request objects, back-channel logout, device settings; tag config_rest) crossed with every switch off (block config_rest). Round 11: where the exact secret travels (header / form in body or query / both / form next to a wrong Basic password) x AuthMethodPost on and off x client registered basic / post / other (block secret_transport); registered secrets and client ids with reserved characters (stored_secret=plus: a literal + and no space; id_kind=plus / space) x wire encoding, with the near misses a decoder that treats + or % differently would confuse with the registered string (form plus_to_space: a space, sent as +, where the registered string has +; once_plus: + where it has a space; block reserved_chars); every Basic header is decoded by the driver's own form decoder and compared with the abstract kind of the case (basic_label_errors must be 0); the state of the token sent to introspection / revocation and of the jwt-bearer grant assertion (9th input field: live / does not decode / well formed but unknown, expired or addressed to another issuer; tags artefact, artefact_form) crossed with every credential fault (block token_state); a provider that derives its issuer from the request's host (op.IssuerFromHost; tags issuer, host): assertions addressed to this host's / the other host's issuer, as the first request and right after X's own valid request at the other host (prev=self_other_host; block issuer_per_host). quick: + random draws (fitting credential half of the time); thorough: + the cross product, enumerating of the grant set only the membership of the grant at stake, of the six switches the three flags and the capability at stake, and drawing the application type. Non-trivial = model path class != 0 (the request got past the first guard of its handler); distinct = distinct (input, path class).",
	})
	if err != nil {
		fmt.Fprintln(os.Stderr, err)
		os.Exit(2)
	}
}
