// Driver for C05 (no tokens or token metadata without client authentication and
// a registered grant). One case = one HTTP request against one router of a
// provider built over refstore, with an otherwise valid grant prepared in the
// store, so that only client registration x presented credential x grant_type
// x provider configuration vary.
package main

import (
	"encoding/base64"
	"fmt"
	"net/http"
	"net/http/httptest"
	"net/url"
	"os"
	"strings"
	"time"

	jose "github.com/go-jose/go-jose/v4"

	"verifharness/drv"
	"verifharness/emit"
	"verifharness/opfix"
	"verifharness/refstore"

	"github.com/zitadel/oidc/v3/pkg/oidc"
	"github.com/zitadel/oidc/v3/pkg/op"
)

// ---------------------------------------------------------------- vocabulary (mirrors C05_Model.v)

var (
	routerN   = []string{"RProvider", "RLegacy"}
	endpointN = []string{"EToken", "EIntrospect", "ERevoke", "EDeviceAuthz"}
	endpointT = []string{"token", "introspect", "revoke", "device_authz"}
	methN     = []string{"MBasic", "MPost", "MPKJWT", "MNone"}
	methV     = []oidc.AuthMethod{oidc.AuthMethodBasic, oidc.AuthMethodPost, oidc.AuthMethodPrivateKeyJWT, oidc.AuthMethodNone}
	appN      = []string{"AWeb", "ANative", "AUserAgent"}
	appV      = []op.ApplicationType{op.ApplicationTypeWeb, op.ApplicationTypeNative, op.ApplicationTypeUserAgent}
	grantN    = []string{"GCode", "GRefresh", "GCC", "GBearer", "GTE", "GDevice", "GImplicit", "GUnknown", "GMissing"}
	grantV    = []string{"authorization_code", "refresh_token", "client_credentials", string(oidc.GrantTypeBearer),
		string(oidc.GrantTypeTokenExchange), string(oidc.GrantTypeDeviceCode), "implicit", "password", ""}
	grantT = []string{"code", "refresh", "client_credentials", "jwt_bearer", "token_exchange", "device_code", "implicit", "unknown", "missing"}
	secN   = []string{"SRight", "SWrong", "SEmpty"}
	assN   = []string{"AOk", "AWrongKey", "AWrongAud"}
)

const (
	gCode = iota
	gRefresh
	gCC
	gBearer
	gTE
	gDevice
	gImplicit
	gUnknown
	gMissing
)
const (
	eToken = iota
	eIntrospect
	eRevoke
	eDeviceAuthz
)
const (
	pNone = iota
	pIDOnly
	pBasic
	pBasicBadEsc
	pPost
	pAssert
	pBoth
	pXBasic  // Basic X:secret(X) + client_id=Y
	pXAssert // assertion of X + client_id=Y
	pXPost   // form client_id=X, client_secret=secret(X) + Basic Y:wrong
	pXPostID // form client_id=Y, client_secret=secret(X)
	pXDup    // body client_id=X, client_secret=secret(X) + URL query client_id=Y
	// partial credentials
	pAssertTypeOnly  // client_id + client_assertion_type, no client_assertion
	pAssertNoType    // valid client_assertion, no client_assertion_type
	pAssertWrongType // valid client_assertion, another client_assertion_type
)

func isCross(k int) bool { return k >= pXBasic && k <= pXDup }

var partialN = map[int]string{pAssertTypeOnly: "PAssertTypeOnly", pAssertNoType: "PAssertNoType", pAssertWrongType: "PAssertWrongType"}
var partialT = map[int]string{pAssertTypeOnly: "assertion_type_only", pAssertNoType: "assertion_no_type", pAssertWrongType: "assertion_wrong_type"}
var prevN = []string{"NoPrev", "PrevAssert", "PrevBasic", "PrevPost"}
var prevT = []string{"none", "assertion", "basic", "post"}

var crossN = map[int]string{pXBasic: "PXBasic", pXAssert: "PXAssert", pXPost: "PXPost", pXPostID: "PXPostId", pXDup: "PXDup"}
var crossT = map[int]string{pXBasic: "cross_basic", pXAssert: "cross_assertion", pXPost: "cross_post_basic_other", pXPostID: "cross_post_other_id", pXDup: "cross_dup_client_id"}

// where parameters travel
var gplaceN = []string{"GPBody", "GPQuery", "GPBothSame", "GPBothDiff"}
var gplaceT = []string{"body", "query", "both_same", "both_diff"}
var placeN = []string{"InBody", "InQuery"}
var placeT = []string{"body", "query"}

type plT struct{ Grant, Client, Art int }

func (p plT) coq() string {
	return emit.Ctor("mkPl", gplaceN[p.Grant], placeN[p.Client], placeN[p.Art])
}

type cfgT struct{ Post, PKJWT, Refresh, CC, TE, Dev bool }

type regT struct {
	Known  bool
	Meth   int
	App    int
	Grants [7]bool // registered grant types, indexed like grantV[0..6]
	HasKey bool
}

type presT struct {
	Kind  int
	B, P  int  // secret kinds (basic / post)
	Pct   bool // basic credentials percent-encoded byte by byte
	BadID bool // malformed escape sits in the id part (else in the secret)
	A     int  // assertion kind
	VM    int  // cross-client kinds: auth method the second client Y is registered with
	VG    bool // ... and whether Y is registered for every grant (else for none)
}

type caseT struct {
	Router   int
	Endpoint int
	Cfg      cfgT
	Reg      regT
	Pres     presT
	Grant    int
	Pl       plT
	Prev     int    // 0 = first request on the fixture state; 1..3 = preceded by a fully credentialed request of a third client
	Tag      string // extra tag for directed cases
}

func (c cfgT) coq() string {
	return emit.Ctor("mkCfg", emit.Bool(c.Post), emit.Bool(c.PKJWT), emit.Bool(c.Refresh), emit.Bool(c.CC), emit.Bool(c.TE), emit.Bool(c.Dev))
}
func (r regT) coq() string {
	var gs []string
	for i, b := range r.Grants {
		if b {
			gs = append(gs, grantN[i])
		}
	}
	return emit.Ctor("mkReg", emit.Bool(r.Known), methN[r.Meth], appN[r.App], emit.List(gs), emit.Bool(r.HasKey))
}
func (p presT) coq() string {
	switch p.Kind {
	case pNone:
		return "PNone"
	case pIDOnly:
		return "PIdOnly"
	case pBasic:
		return emit.Ctor("PBasic", secN[p.B], emit.Bool(p.Pct))
	case pBasicBadEsc:
		return "PBasicBadEsc"
	case pPost:
		return emit.Ctor("PPost", secN[p.P])
	case pAssert:
		return emit.Ctor("PAssert", assN[p.A])
	case pBoth:
		return emit.Ctor("PBoth", secN[p.B], secN[p.P])
	case pAssertTypeOnly, pAssertNoType, pAssertWrongType:
		return partialN[p.Kind]
	}
	return emit.Ctor(crossN[p.Kind], emit.Ctor("mkV", methN[p.VM], emit.Bool(p.VG)))
}
func (p presT) tag() string {
	switch p.Kind {
	case pNone:
		return "none"
	case pIDOnly:
		return "id_only"
	case pBasic:
		s := "basic_" + strings.ToLower(secN[p.B][1:])
		if p.Pct {
			s += "_pct"
		}
		return s
	case pBasicBadEsc:
		return "basic_bad_escape"
	case pPost:
		return "post_" + strings.ToLower(secN[p.P][1:])
	case pAssert:
		return "assertion_" + strings.ToLower(assN[p.A][1:])
	case pXBasic, pXAssert, pXPost, pXPostID, pXDup:
		return crossT[p.Kind]
	case pAssertTypeOnly, pAssertNoType, pAssertWrongType:
		return partialT[p.Kind]
	}
	return "both_" + strings.ToLower(secN[p.B][1:]) + "_" + strings.ToLower(secN[p.P][1:])
}
func (c caseT) coq() string {
	return emit.Ctor("mkInput", routerN[c.Router], endpointN[c.Endpoint], c.Cfg.coq(), c.Reg.coq(), c.Pres.coq(), grantN[c.Grant], c.Pl.coq(), prevN[c.Prev])
}

func onoff(b bool) string {
	if b {
		return "on"
	}
	return "off"
}

func (c caseT) tags() []string {
	t := []string{"router=" + opfix.Router(c.Router).String(), "endpoint=" + endpointT[c.Endpoint],
		"meth=" + strings.ToLower(methN[c.Reg.Meth][1:]), "app=" + strings.ToLower(appN[c.Reg.App][1:]),
		"pres=" + c.Pres.tag(), "known=" + onoff(c.Reg.Known), "key=" + onoff(c.Reg.HasKey),
		"post=" + onoff(c.Cfg.Post), "pkjwt=" + onoff(c.Cfg.PKJWT), "refresh=" + onoff(c.Cfg.Refresh),
		"cc=" + onoff(c.Cfg.CC), "te=" + onoff(c.Cfg.TE), "dev=" + onoff(c.Cfg.Dev)}
	if c.Endpoint == eToken {
		t = append(t, "grant="+grantT[c.Grant])
		if c.Grant < 7 {
			t = append(t, "grant_registered="+onoff(c.Reg.Grants[c.Grant]))
		}
	} else if c.Endpoint == eDeviceAuthz {
		t = append(t, "grant_registered="+onoff(c.Reg.Grants[gDevice]))
	}
	t = append(t, "pl_client="+placeT[c.Pl.Client], "pl_artefact="+placeT[c.Pl.Art])
	if c.Endpoint == eToken {
		t = append(t, "pl_grant="+gplaceT[c.Pl.Grant])
	}
	t = append(t, "prev="+prevT[c.Prev])
	if isCross(c.Pres.Kind) {
		t = append(t, "victim="+strings.ToLower(methN[c.Pres.VM][1:]), "victim_grants="+onoff(c.Pres.VG))
	}
	if c.Tag != "" {
		t = append(t, c.Tag)
	}
	return t
}

// ---------------------------------------------------------------- fixtures (one per configuration)

type world struct {
	f  *opfix.Fixture
	st *refstore.Store
	n  int
}

var worlds = map[cfgT]*world{}

var primerFailed int // primer requests that were not answered active:true (must stay 0)

func worldOf(c cfgT) *world {
	if w, ok := worlds[c]; ok {
		return w
	}
	st := refstore.New(opfix.DefaultSigning())
	st.Users["alice"] = &refstore.User{Subject: "alice", Name: "Alice A", Email: "alice@example.com"}
	f, err := opfix.New(st, opfix.Options{NoPost: !c.Post, NoPKJWT: !c.PKJWT, NoRefresh: !c.Refresh, NoCC: !c.CC, NoTE: !c.TE, NoDevice: !c.Dev})
	if err != nil {
		fmt.Fprintln(os.Stderr, "fixture:", err)
		os.Exit(2)
	}
	w := &world{f: f, st: st}
	worlds[c] = w
	return w
}

var (
	rightKey = opfix.ECKey("c05-client")
	otherKey = opfix.ECKey("c05-other")
)

const redirectURI = "https://app.example.com/cb"
const verifier = "c05-verifier-c05-verifier-c05-verifier-c05-verifier"

func signAssertion(key any, iss string, aud []string) string {
	signer, err := jose.NewSigner(jose.SigningKey{Algorithm: jose.ES256, Key: key},
		(&jose.SignerOptions{}).WithHeader("kid", "k1"))
	if err != nil {
		panic(err)
	}
	now := time.Now()
	payload := fmt.Sprintf(`{"iss":%q,"sub":%q,"aud":[%q],"iat":%d,"exp":%d}`, iss, iss, aud[0], now.Add(-time.Second).Unix(), now.Add(time.Hour).Unix())
	jws, err := signer.Sign([]byte(payload))
	if err != nil {
		panic(err)
	}
	s, _ := jws.CompactSerialize()
	return s
}

func pctAll(s string) string {
	var sb strings.Builder
	for i := 0; i < len(s); i++ {
		fmt.Fprintf(&sb, "%%%02X", s[i])
	}
	return sb.String()
}

type outcome struct {
	Status int
	Err    string
	Tok    bool
	Act    bool
	Panic  string
	Writes int
	Body   string
	Who    string // client id the answer acted for ("" = nobody)
	// device authorization followed to its end: did the named other client / the case's client obtain tokens by polling
	PollOther, PollSelf bool
}

// run prepares the grant artefacts of one case in the store, sends the request and projects the answer.
func run(c caseT) outcome {
	w := worldOf(c.Cfg)
	w.n++
	st := w.st
	id := fmt.Sprintf("c%d", w.n)
	secret := "sec-" + id
	stored := secret
	hasSecret := c.Reg.Meth == 0 || c.Reg.Meth == 1
	if !hasSecret {
		stored = ""             // refstore contract: AuthorizeClientIDSecret(id, "") succeeds for a client without a secret
		secret = "decoy-secret" // what "the right secret" means for a client that has none
	}
	// every case starts from an empty store (the fixture keeps keys and users)
	st.Clients = map[string]*refstore.Client{}
	st.Tokens, st.Refresh = map[string]*refstore.Token{}, map[string]*refstore.RefreshToken{}
	st.AuthReqs, st.Codes = map[string]*refstore.AuthRequest{}, map[string]string{}
	st.Devices, st.UserCode = map[string]*refstore.Device{}, map[string]string{}
	// cross-client presentations: a second, confidential client Y owns the grant artefact
	cross := isCross(c.Pres.Kind)
	vid := "v" + id
	owner := id
	if cross {
		owner = vid
		v := &refstore.Client{ID: vid, Secret: "sec-" + vid, Redirects: []string{redirectURI}, App: op.ApplicationTypeWeb, Auth: methV[c.Pres.VM],
			RespTypes: []oidc.ResponseType{oidc.ResponseTypeCode}, ATType: op.AccessTokenTypeBearer}
		if c.Pres.VM >= 2 {
			v.Secret = ""
		}
		if c.Pres.VM == 2 {
			v.Keys = map[string]*jose.JSONWebKey{"k1": {Key: &otherKey.PublicKey, KeyID: "k1", Algorithm: "ES256", Use: "sig"}}
		}
		for i := 0; i < 7 && c.Pres.VG; i++ {
			v.Grants = append(v.Grants, oidc.GrantType(grantV[i]))
		}
		st.Clients[vid] = v
	}
	if c.Reg.Known {
		cl := &refstore.Client{ID: id, Secret: stored, Redirects: []string{redirectURI}, App: appV[c.Reg.App], Auth: methV[c.Reg.Meth],
			RespTypes: []oidc.ResponseType{oidc.ResponseTypeCode}, ATType: op.AccessTokenTypeBearer}
		for i, b := range c.Reg.Grants {
			if b {
				cl.Grants = append(cl.Grants, oidc.GrantType(grantV[i]))
			}
		}
		if c.Reg.HasKey {
			cl.Keys = map[string]*jose.JSONWebKey{"k1": {Key: &rightKey.PublicKey, KeyID: "k1", Algorithm: "ES256", Use: "sig"}}
		}
		st.Clients[id] = cl
	}
	now := time.Now()
	form := url.Values{}
	path := ""
	rt := "rt-" + id
	newRefresh := func() {
		st.Refresh[rt] = &refstore.RefreshToken{ID: rt, ClientID: owner, Subject: "alice", Audience: []string{owner}, Scopes: []string{"openid"},
			AMR: []string{"pwd"}, AuthTime: now.Add(-time.Minute).Truncate(time.Second), Expiration: now.Add(time.Hour)}
	}
	switch c.Endpoint {
	case eToken:
		path = "/oauth/token"
		switch c.Grant {
		case gCode:
			rid := "req-" + id
			st.AuthReqs[rid] = &refstore.AuthRequest{ID: rid, ClientID: owner, RedirectURI: redirectURI, Scopes: []string{"openid"},
				ResponseType: oidc.ResponseTypeCode, Subject: "alice", IsDone: true, AuthTime: now.Add(-time.Minute).Truncate(time.Second),
				CodeChallenge: &oidc.CodeChallenge{Challenge: opfix.S256(verifier), Method: oidc.CodeChallengeMethodS256}, Nonce: "n"}
			st.Codes["code-"+id] = rid
			form.Set("code", "code-"+id)
			form.Set("redirect_uri", redirectURI)
			form.Set("code_verifier", verifier)
		case gRefresh:
			newRefresh()
			form.Set("refresh_token", rt)
		case gCC:
			form.Set("scope", "openid")
		case gBearer:
			form.Set("assertion", signAssertion(rightKey, id, []string{opfix.Issuer}))
			form.Set("scope", "openid")
		case gTE:
			newRefresh()
			form.Set("subject_token", rt)
			form.Set("subject_token_type", string(oidc.RefreshTokenType))
		case gDevice:
			dc, uc := "dc-"+id, "UC-"+id
			st.Devices[dc] = &refstore.Device{DeviceCode: dc, UserCode: uc, State: &op.DeviceAuthorizationState{ClientID: owner, Scopes: []string{"openid"},
				Expires: now.Add(time.Hour), Done: true, Subject: "alice", AMR: []string{"pwd"}, AuthTime: now.Add(-time.Minute).Truncate(time.Second)}}
			st.UserCode[uc] = dc
			form.Set("device_code", dc)
		}
	case eIntrospect:
		path = "/oauth/introspect"
		at := "at-" + id
		st.Tokens[at] = &refstore.Token{ID: at, ClientID: owner, Subject: "alice", Audience: []string{owner}, Scopes: []string{"openid"}, Expiration: now.Add(time.Hour)}
		tok, err := w.f.Provider.Crypto().Encrypt(at + ":alice")
		if err != nil {
			panic(err)
		}
		form.Set("token", tok)
	case eRevoke:
		path = "/revoke"
		newRefresh()
		form.Set("token", rt)
	case eDeviceAuthz:
		path = "/device_authorization"
		form.Set("scope", "openid")
	}

	// presentation
	cform := url.Values{}
	dupQueryID := ""
	basicID, basicSec, useBasic := "", "", false
	sec := func(k int) string {
		switch k {
		case 0:
			return secret
		case 1:
			return "wrong-secret"
		}
		return ""
	}
	switch c.Pres.Kind {
	case pIDOnly:
		cform.Set("client_id", id)
	case pBasic:
		basicID, basicSec, useBasic = id, sec(c.Pres.B), true
		if c.Pres.Pct {
			basicID, basicSec = pctAll(basicID), pctAll(basicSec)
		}
	case pBasicBadEsc:
		basicID, basicSec, useBasic = id, secret, true
		if c.Pres.BadID {
			basicID += "%zz"
		} else {
			basicSec += "%zz"
		}
	case pPost:
		cform.Set("client_id", id)
		cform.Set("client_secret", sec(c.Pres.P))
	case pAssert:
		cform.Set("client_assertion_type", oidc.ClientAssertionTypeJWTAssertion)
		switch c.Pres.A {
		case 0:
			cform.Set("client_assertion", signAssertion(rightKey, id, []string{opfix.Issuer}))
		case 1:
			cform.Set("client_assertion", signAssertion(otherKey, id, []string{opfix.Issuer}))
		default:
			cform.Set("client_assertion", signAssertion(rightKey, id, []string{"https://other.example.com"}))
		}
	case pBoth:
		basicID, basicSec, useBasic = id, sec(c.Pres.B), true
		cform.Set("client_id", id)
		cform.Set("client_secret", sec(c.Pres.P))
	case pXBasic:
		basicID, basicSec, useBasic = id, secret, true
		cform.Set("client_id", vid)
	case pXAssert:
		cform.Set("client_assertion_type", oidc.ClientAssertionTypeJWTAssertion)
		cform.Set("client_assertion", signAssertion(rightKey, id, []string{opfix.Issuer}))
		cform.Set("client_id", vid)
	case pXPost:
		basicID, basicSec, useBasic = vid, "wrong-secret", true
		cform.Set("client_id", id)
		cform.Set("client_secret", secret)
	case pXPostID:
		cform.Set("client_id", vid)
		cform.Set("client_secret", secret)
	case pXDup:
		cform.Set("client_id", id)
		cform.Set("client_secret", secret)
		dupQueryID = vid
	case pAssertTypeOnly:
		cform.Set("client_id", id)
		cform.Set("client_assertion_type", oidc.ClientAssertionTypeJWTAssertion)
	case pAssertNoType:
		cform.Set("client_assertion", signAssertion(rightKey, id, []string{opfix.Issuer}))
	case pAssertWrongType:
		cform.Set("client_assertion", signAssertion(rightKey, id, []string{opfix.Issuer}))
		cform.Set("client_assertion_type", "urn:ietf:params:oauth:client-assertion-type:saml2-bearer")
	}
	// placement
	body, query := url.Values{}, url.Values{}
	put := func(dst, src url.Values) {
		for k, vs := range src {
			for _, v := range vs {
				dst.Add(k, v)
			}
		}
	}
	if c.Pl.Art == 0 {
		put(body, form)
	} else {
		put(query, form)
	}
	if c.Pl.Client == 0 {
		put(body, cform)
	} else {
		put(query, cform)
	}
	if dupQueryID != "" {
		query.Add("client_id", dupQueryID) // after X's id when that travels in the query too
	}
	if c.Endpoint == eToken && c.Grant != gMissing {
		g := grantV[c.Grant]
		switch c.Pl.Grant {
		case 0:
			body.Set("grant_type", g)
		case 1:
			query.Set("grant_type", g)
		case 2:
			body.Set("grant_type", g)
			query.Set("grant_type", g)
		default: // the query names another grant, for which the request carries no artefact
			body.Set("grant_type", g)
			alt := grantV[gRefresh]
			if c.Grant == gRefresh {
				alt = grantV[gCode]
			}
			query.Set("grant_type", alt)
		}
	}
	target := opfix.Issuer + path
	if len(query) > 0 {
		target += "?" + query.Encode()
	}

	req := httptest.NewRequest(http.MethodPost, target, strings.NewReader(body.Encode()))
	req.Header.Set("Content-Type", "application/x-www-form-urlencoded")
	if useBasic {
		req.Header.Set("Authorization", "Basic "+base64.StdEncoding.EncodeToString([]byte(basicID+":"+basicSec)))
	}
	// sequence: the same provider instance first serves an introspection request of a third client P
	// that carries P's full credential
	pid := "p" + id
	if c.Prev > 0 {
		pc := &refstore.Client{ID: pid, Secret: "sec-" + pid, App: op.ApplicationTypeWeb, Auth: oidc.AuthMethodBasic, ATType: op.AccessTokenTypeBearer,
			Keys: map[string]*jose.JSONWebKey{"k1": {Key: &rightKey.PublicKey, KeyID: "k1", Algorithm: "ES256", Use: "sig"}}}
		st.Clients[pid] = pc
		st.Tokens["at-"+pid] = &refstore.Token{ID: "at-" + pid, ClientID: pid, Subject: "alice", Audience: []string{pid}, Scopes: []string{"openid"}, Expiration: now.Add(time.Hour)}
		ptok, _ := w.f.Provider.Crypto().Encrypt("at-" + pid + ":alice")
		pf := url.Values{"token": {ptok}}
		preq := func() *http.Request {
			rq := httptest.NewRequest(http.MethodPost, opfix.Issuer+"/oauth/introspect", strings.NewReader(pf.Encode()))
			rq.Header.Set("Content-Type", "application/x-www-form-urlencoded")
			return rq
		}
		var rq *http.Request
		switch c.Prev {
		case 1:
			pf.Set("client_assertion_type", oidc.ClientAssertionTypeJWTAssertion)
			pf.Set("client_assertion", signAssertion(rightKey, pid, []string{opfix.Issuer}))
			rq = preq()
		case 2:
			rq = preq()
			rq.SetBasicAuth(pid, "sec-"+pid)
		default:
			pf.Set("client_id", pid)
			pf.Set("client_secret", "sec-"+pid)
			rq = preq()
		}
		pr := opfix.Do(w.f.Handlers[c.Router], rq)
		if c.Prev == 3 && c.Router == 0 {
			// the Provider router's introspection reads no form secret: that primer is refused, by design
		} else if b, _ := pr.JSON["active"].(bool); !b {
			primerFailed++
		}
	}
	resp := opfix.Do(w.f.Handlers[c.Router], req)

	o := outcome{Status: resp.Status, Panic: resp.Panic, Writes: resp.Writes, Body: resp.Body}
	if len(o.Body) > 160 {
		o.Body = o.Body[:160]
	}
	if resp.JSON != nil {
		o.Err, _ = resp.JSON["error"].(string)
		for _, k := range []string{"access_token", "id_token", "refresh_token", "device_code", "user_code"} {
			if s, _ := resp.JSON[k].(string); s != "" {
				o.Tok = true
			}
		}
		if b, _ := resp.JSON["active"].(bool); b {
			o.Act = true
		}
	} else if o.Status >= 400 {
		o.Err = "\x00notjson"
	}
	if c.Endpoint == eRevoke && !st.RefreshLive(rt) {
		o.Act = true
	}
	// whom did the answer act for: the owner of a token or device code it created, of the token it
	// revoked, of the token it reported active
	for tid, t := range st.Tokens {
		if tid != "at-"+id && tid != "at-"+pid {
			o.Who = t.ClientID
			if o.Who == "" {
				o.Who = t.Subject // jwt-bearer: the token belongs to the assertion's issuer
			}
		}
	}
	for dcode, d := range st.Devices {
		if dcode != "dc-"+id {
			o.Who = d.State.ClientID
			// follow the device flow to its end: the user approves, then the client the request named in its body
			// (Y, with nothing but its id) and the client that authenticated (X, with the credential of its
			// registered method) poll the token endpoint of the same router
			st.Approve(d.UserCode, "alice")
			poll := func(f url.Values, basic []string) bool {
				f.Set("grant_type", grantV[gDevice])
				f.Set("device_code", dcode)
				rq := httptest.NewRequest(http.MethodPost, opfix.Issuer+"/oauth/token", strings.NewReader(f.Encode()))
				rq.Header.Set("Content-Type", "application/x-www-form-urlencoded")
				if basic != nil {
					rq.SetBasicAuth(basic[0], basic[1])
				}
				pr := opfix.Do(w.f.Handlers[c.Router], rq)
				t, _ := pr.JSON["access_token"].(string)
				return pr.Status == 200 && t != ""
			}
			if cross {
				o.PollOther = poll(url.Values{"client_id": {vid}}, nil)
			}
			switch c.Reg.Meth {
			case 0:
				o.PollSelf = poll(url.Values{}, []string{id, "sec-" + id})
			case 1:
				o.PollSelf = poll(url.Values{"client_id": {id}, "client_secret": {"sec-" + id}}, nil)
			case 2:
				o.PollSelf = poll(url.Values{"client_assertion_type": {oidc.ClientAssertionTypeJWTAssertion},
					"client_assertion": {signAssertion(rightKey, id, []string{opfix.Issuer})}}, nil)
			default:
				o.PollSelf = poll(url.Values{"client_id": {id}}, nil)
			}
			if o.PollOther {
				o.Who = vid // whoever the record names: the other client got the tokens
			}
			break
		}
	}
	if o.Who == "" && o.Act {
		o.Who = owner
	}
	switch o.Who {
	case "":
		o.Who = "WNone"
	case id:
		o.Who = "WSelf"
	default:
		o.Who = "WOther"
	}
	return o
}

var errCtor = map[string]string{"": "ENone", "invalid_request": "EInvalidRequest", "invalid_client": "EInvalidClient", "invalid_grant": "EInvalidGrant",
	"unauthorized_client": "EUnauthorizedClient", "unsupported_grant_type": "EUnsupportedGrantType", "server_error": "EServerError",
	"access_denied": "EAccessDenied", "invalid_scope": "EInvalidScope", "\x00notjson": "ENotJSON"}

// the remaining error codes the library can produce (pkg/oidc/error.go); anything else is ENotOAuth
var oauthVocabulary = map[string]bool{"invalid_target": true, "unsupported_response_type": true, "interaction_required": true, "login_required": true,
	"account_selection_required": true, "consent_required": true, "invalid_request_uri": true, "invalid_request_object": true,
	"request_not_supported": true, "request_uri_not_supported": true, "registration_not_supported": true,
	"authorization_pending": true, "slow_down": true, "expired_token": true, "temporarily_unavailable": true}

func (o outcome) coq() string {
	if o.Panic != "" {
		return "OPanic"
	}
	if o.Writes > 1 {
		return "ODouble"
	}
	cls := "S5"
	switch {
	case o.Status < 200:
		cls = "S1"
	case o.Status < 300:
		cls = "S2"
	case o.Status < 400:
		cls = "S3"
	case o.Status < 500:
		cls = "S4"
	}
	e, ok := errCtor[o.Err]
	if !ok {
		e = "ENotOAuth"
		if oauthVocabulary[o.Err] {
			e = "EOther"
		}
	}
	return emit.Ctor("ORes", cls, e, emit.Bool(o.Tok), emit.Bool(o.Act), o.Who)
}

// ---------------------------------------------------------------- generation

func allPres() []presT {
	ps := []presT{{Kind: pNone}, {Kind: pIDOnly}, {Kind: pBasicBadEsc}, {Kind: pBasicBadEsc, BadID: true}}
	for s := 0; s < 3; s++ {
		ps = append(ps, presT{Kind: pBasic, B: s}, presT{Kind: pBasic, B: s, Pct: true}, presT{Kind: pPost, P: s})
		for s2 := 0; s2 < 3; s2++ {
			ps = append(ps, presT{Kind: pBoth, B: s, P: s2})
		}
	}
	ps = append(ps, presT{Kind: pAssertTypeOnly}, presT{Kind: pAssertNoType}, presT{Kind: pAssertWrongType})
	for a := 0; a < 3; a++ {
		ps = append(ps, presT{Kind: pAssert, A: a})
	}
	return ps
}

var crossKinds = []int{pXBasic, pXAssert, pXPost, pXPostID, pXDup}

// drawPres: one of the 16 single-client presentations or (1 in 4) a cross-client one
func drawPres(r drv.Rand) presT {
	if r.Chance(1, 4) {
		return presT{Kind: drv.Pick(r, crossKinds), VM: r.IntN(4), VG: r.Bool()}
	}
	return drv.Pick(r, allPres())
}

// drawPl: mostly everything in the body
func drawPl(r drv.Rand) plT {
	var p plT
	if r.Chance(1, 4) {
		p.Grant = 1 + r.IntN(3)
	}
	if r.Chance(1, 5) {
		p.Client = 1
	}
	if r.Chance(1, 5) {
		p.Art = 1
	}
	return p
}

func bits(n, k int) bool { return n>>k&1 == 1 }

func cfgOf(n int) cfgT {
	return cfgT{Post: bits(n, 0), PKJWT: bits(n, 1), Refresh: bits(n, 2), CC: bits(n, 3), TE: bits(n, 4), Dev: bits(n, 5)}
}

// grantOf(endpoint, grant): the grant whose registration matters for the case (-1: none)
func grantOf(e, g int) int {
	if e == eDeviceAuthz {
		return gDevice
	}
	if e == eToken && g < 7 {
		return g
	}
	return -1
}

func randomCase(r drv.Rand) caseT {
	var c caseT
	c.Router = r.IntN(2)
	switch x := r.IntN(10); {
	case x < 7:
		c.Endpoint = eToken
	default:
		c.Endpoint = 1 + r.IntN(3)
	}
	c.Grant = gMissing
	if c.Endpoint == eToken {
		// the six dispatched grants most of the time
		if r.Chance(9, 10) {
			c.Grant = r.IntN(6)
		} else {
			c.Grant = 6 + r.IntN(3)
		}
	}
	// mostly-on configuration, each switch off with probability 1/4
	c.Cfg = cfgT{!r.Chance(1, 4), !r.Chance(1, 4), !r.Chance(1, 4), !r.Chance(1, 4), !r.Chance(1, 4), !r.Chance(1, 4)}
	c.Reg.Known = !r.Chance(1, 10)
	c.Reg.Meth = r.IntN(4)
	c.Reg.App = r.IntN(3)
	for i := range c.Reg.Grants {
		c.Reg.Grants[i] = r.Bool()
	}
	if g := grantOf(c.Endpoint, c.Grant); g >= 0 {
		c.Reg.Grants[g] = !r.Chance(1, 4)
	}
	c.Reg.HasKey = c.Reg.Meth == 2 && !r.Chance(1, 6) || c.Reg.Meth != 2 && r.Chance(1, 2)
	// presentation: the one fitting the registration half of the time, anything otherwise
	c.Pres = drawPres(r)
	c.Pl = drawPl(r)
	if r.Chance(1, 4) {
		c.Prev = 1 + r.IntN(3)
	}
	if r.Bool() {
		switch c.Reg.Meth {
		case 0:
			c.Pres = presT{Kind: pBasic, Pct: r.Bool()}
		case 1:
			c.Pres = drv.Pick(r, []presT{{Kind: pPost}, {Kind: pBasic}})
		case 2:
			c.Pres = presT{Kind: pAssert}
		default:
			c.Pres = presT{Kind: pIDOnly}
		}
	}
	return c
}

func full(grants ...int) [7]bool {
	var g [7]bool
	for i := range g {
		g[i] = true
	}
	for _, x := range grants {
		g[x] = false
	}
	return g
}

// directed cases: the inputs of the defects this check found (kept so they are reported again if they return)
func directed() []caseT {
	allOn := cfgT{true, true, true, true, true, true}
	web := func(m int, gr [7]bool) regT { return regT{Known: true, Meth: m, App: 0, Grants: gr, HasKey: m == 2} }
	var cs []caseT
	// F03: malformed escape in the Basic header, the five legacy grant handlers of the Provider router
	for _, g := range []int{gCode, gRefresh, gCC, gTE, gBearer} {
		for _, bad := range []bool{false, true} {
			cs = append(cs, caseT{Router: 0, Endpoint: eToken, Cfg: allOn, Reg: web(0, full()), Pres: presT{Kind: pBasicBadEsc, BadID: bad}, Grant: g, Tag: "defect=F03"})
		}
	}
	// F21: Legacy router, device authorization for a client without the device grant
	cs = append(cs, caseT{Router: 1, Endpoint: eDeviceAuthz, Cfg: allOn, Reg: web(0, full(gDevice)), Pres: presT{Kind: pBasic}, Grant: gMissing, Tag: "defect=F21"})
	cs = append(cs, caseT{Router: 1, Endpoint: eDeviceAuthz, Cfg: allOn, Reg: regT{Known: true, Meth: 3, App: 1, Grants: full(gDevice)}, Pres: presT{Kind: pIDOnly}, Grant: gMissing, Tag: "defect=F21"})
	// F22: Provider router, token exchange for a client without that grant
	cs = append(cs, caseT{Router: 0, Endpoint: eToken, Cfg: allOn, Reg: web(0, full(gTE)), Pres: presT{Kind: pBasic}, Grant: gTE, Tag: "defect=F22"})
	// Fxx-C05-1: client_secret_post client while AuthMethodPost is off: client_credentials (both routers), token exchange (Provider)
	noPost := allOn
	noPost.Post = false
	for _, rt := range []int{0, 1} {
		cs = append(cs, caseT{Router: rt, Endpoint: eToken, Cfg: noPost, Reg: web(1, full()), Pres: presT{Kind: pPost}, Grant: gCC, Tag: "defect=Fxx-C05-1"})
		cs = append(cs, caseT{Router: rt, Endpoint: eToken, Cfg: noPost, Reg: web(1, full()), Pres: presT{Kind: pBasic}, Grant: gCC, Tag: "defect=Fxx-C05-1"})
	}
	cs = append(cs, caseT{Router: 0, Endpoint: eToken, Cfg: noPost, Reg: web(1, full()), Pres: presT{Kind: pBasic}, Grant: gTE, Tag: "defect=Fxx-C05-1"})
	// Fxx-C05-4 (recorded): Provider router, device token, grant not registered. Fxx-C05-2: secret-registered native client without its secret;
	// client_secret_post client with AuthMethodPost off; assertion by a client_secret_basic client
	cs = append(cs, caseT{Router: 0, Endpoint: eToken, Cfg: allOn, Reg: regT{Known: true, Meth: 3, App: 1, Grants: full(gDevice)}, Pres: presT{Kind: pIDOnly}, Grant: gDevice, Tag: "defect=Fxx-C05-4"})
	cs = append(cs, caseT{Router: 0, Endpoint: eToken, Cfg: allOn, Reg: regT{Known: true, Meth: 0, App: 1, Grants: full()}, Pres: presT{Kind: pIDOnly}, Grant: gDevice, Tag: "defect=Fxx-C05-2"})
	cs = append(cs, caseT{Router: 0, Endpoint: eToken, Cfg: noPost, Reg: web(1, full()), Pres: presT{Kind: pBasic}, Grant: gDevice, Tag: "defect=Fxx-C05-2"})
	cs = append(cs, caseT{Router: 0, Endpoint: eToken, Cfg: allOn, Reg: regT{Known: true, Meth: 0, App: 0, Grants: full(), HasKey: true}, Pres: presT{Kind: pAssert}, Grant: gDevice, Tag: "defect=Fxx-C05-2"})
	// Fxx-C05-3: LegacyServer router, token exchange by a public client that only names itself
	cs = append(cs, caseT{Router: 1, Endpoint: eToken, Cfg: allOn, Reg: regT{Known: true, Meth: 3, App: 1, Grants: full()}, Pres: presT{Kind: pIDOnly}, Grant: gTE, Tag: "defect=Fxx-C05-3"})
	return cs
}

// systematic: run in both tiers. (1) every router x endpoint/grant x auth method x application type with
// everything enabled and registered, once with the credential fitting the method and once with client_id only;
// (2) every router x endpoint/grant x cross-client presentation x auth method of the second client, for a basic and a
// private_key_jwt client X; (3) every router x endpoint/grant x placement of grant_type / client parameters / artefact.
func systematic() []caseT {
	allOn := cfgT{true, true, true, true, true, true}
	var cs []caseT
	type eg struct{ e, g int }
	egs := []eg{{eToken, gCode}, {eToken, gRefresh}, {eToken, gCC}, {eToken, gBearer}, {eToken, gTE}, {eToken, gDevice},
		{eIntrospect, gMissing}, {eRevoke, gMissing}, {eDeviceAuthz, gMissing}}
	fitting := []presT{{Kind: pBasic}, {Kind: pPost}, {Kind: pAssert}, {Kind: pIDOnly}}
	for router := 0; router < 2; router++ {
		for _, x := range egs {
			for meth := 0; meth < 4; meth++ {
				for app := 0; app < 3; app++ {
					rg := regT{Known: true, Meth: meth, App: app, Grants: full(), HasKey: meth == 2}
					cs = append(cs, caseT{Router: router, Endpoint: x.e, Grant: x.g, Cfg: allOn, Reg: rg, Pres: fitting[meth], Tag: "block=method_x_app"})
					if meth != 3 {
						cs = append(cs, caseT{Router: router, Endpoint: x.e, Grant: x.g, Cfg: allOn, Reg: rg, Pres: presT{Kind: pIDOnly}, Tag: "block=method_x_app"})
					}
				}
			}
			for _, k := range crossKinds {
				for _, meth := range []int{0, 2} {
					for vm := 0; vm < 4; vm++ {
						for _, vg := range []bool{true, false} {
							rg := regT{Known: true, Meth: meth, App: 0, Grants: full(), HasKey: true}
							cs = append(cs, caseT{Router: router, Endpoint: x.e, Grant: x.g, Cfg: allOn, Reg: rg, Pres: presT{Kind: k, VM: vm, VG: vg}, Tag: "block=cross_client"})
						}
					}
				}
			}
			// (4) hollow and partial credentials, as the first request and right after a fully credentialed request of
			// a third client (assertion / Basic), for a basic, a private_key_jwt and a public client X
			hollow := []presT{{Kind: pNone}, {Kind: pIDOnly}, {Kind: pBasic, B: 2}, {Kind: pPost, P: 2}, {Kind: pAssertTypeOnly}, {Kind: pAssertNoType}, {Kind: pAssertWrongType}}
			for _, meth := range []int{0, 2, 3} {
				for _, pr := range hollow {
					for _, prev := range []int{0, 1, 2} {
						if prev == 2 && pr.Kind > pIDOnly {
							continue
						}
						rg := regT{Known: true, Meth: meth, App: 0, Grants: full(), HasKey: true}
						cs = append(cs, caseT{Router: router, Endpoint: x.e, Grant: x.g, Cfg: allOn, Reg: rg, Pres: pr, Prev: prev, Tag: "block=hollow_and_sequence"})
					}
				}
			}
			// (3) where the parameters travel: one dimension moved at a time, client registered for the grant at
			// stake or not, secret in the header or in the form
			pls := []plT{{1, 0, 0}, {2, 0, 0}, {3, 0, 0}, {0, 1, 0}, {0, 0, 1}, {1, 1, 1}}
			for _, pl := range pls {
				if x.e != eToken && pl.Grant != 0 && pl.Client == 0 {
					continue // no grant_type on the other endpoints
				}
				for _, regd := range []bool{true, false} {
					for _, pr := range []presT{{Kind: pBasic}, {Kind: pPost}} {
						gr := full()
						if gg := grantOf(x.e, x.g); gg >= 0 {
							gr[gg] = regd
						} else if !regd {
							continue
						}
						rg := regT{Known: true, Meth: pr.Kind / pPost, App: 0, Grants: gr, HasKey: true}
						cs = append(cs, caseT{Router: router, Endpoint: x.e, Grant: x.g, Cfg: allOn, Reg: rg, Pres: pr, Pl: pl, Tag: "block=placement"})
					}
				}
			}
		}
	}
	return cs
}

// enumerate: the whole cross product with two reductions that lose no decision: of the grant set only the
// membership of the grant at stake is enumerated (the other six are drawn), and of the six switches the three
// provider flags are enumerated while the capability at stake is enumerated and the other two are drawn.
func enumerate(r drv.Rand, emitCase func(caseT)) {
	ps := allPres()
	for _, k := range crossKinds {
		ps = append(ps, presT{Kind: k})
	}
	for router := 0; router < 2; router++ {
		for e := 0; e < 4; e++ {
			grants := []int{gMissing}
			if e == eToken {
				// device_code first: the recorded finding Fxx-C05-4 makes some of these cases violate the predicate, and
				// a shard that reports a case id above ~31000 overflows coqc's stack (ids are unary nats)
				grants = []int{5, 0, 1, 2, 3, 4, 6, 7, 8}
			}
			for _, g := range grants {
				for meth := 0; meth < 4; meth++ {
					for app := r.IntN(3); app < 3; app += 3 { // drawn: no guard of the repaired code reads the application type
						for _, p := range ps {
							for flags := 0; flags < 8; flags++ {
								for v := 0; v < 8; v++ { // v: known/registered/key/capability variants
									c := caseT{Router: router, Endpoint: e, Grant: g, Pres: p, Pl: drawPl(r)}
									c.Pres.VM, c.Pres.VG = r.IntN(4), r.Bool()
									if r.Chance(1, 4) {
										c.Prev = 1 + r.IntN(3)
									}
									c.Cfg = cfgT{bits(flags, 0), bits(flags, 1), bits(flags, 2), r.Bool(), r.Bool(), r.Bool()}
									capOn := bits(v, 0)
									switch grantOf(e, g) {
									case gCC:
										c.Cfg.CC = capOn
									case gTE:
										c.Cfg.TE = capOn
									case gDevice:
										c.Cfg.Dev = capOn
									default:
										if !capOn {
											continue
										}
									}
									c.Reg = regT{Known: true, Meth: meth, App: app, HasKey: bits(v, 1)}
									for i := range c.Reg.Grants {
										c.Reg.Grants[i] = r.Bool()
									}
									if gg := grantOf(e, g); gg >= 0 {
										c.Reg.Grants[gg] = bits(v, 2)
									} else if !bits(v, 2) {
										continue
									}
									emitCase(c)
								}
							}
							// unknown client: once per presentation
							c := caseT{Router: router, Endpoint: e, Grant: g, Pres: p, Pl: drawPl(r), Cfg: cfgOf(r.IntN(64) | 7*r.IntN(2))}
							c.Pres.VM, c.Pres.VG = r.IntN(4), r.Bool()
							c.Reg = regT{Known: false, Meth: meth, App: app, HasKey: r.Bool()}
							emitCase(c)
						}
					}
				}
			}
		}
	}
}

func main() {
	cfg := drv.Parse()
	r := drv.NewRand(cfg.Seed)
	shard := 0 // quick: spread over 16 coqc processes
	if !cfg.Quick && cfg.N == 0 {
		shard = 1000 // thorough: coqc needs ~0.6 GB per 1000 cases
	}
	w := emit.NewWriter(cfg.Out, "C05_spec", shard, cfg.Only)

	add := func(c caseT) {
		var o outcome
		p := drv.Catch(func() { o = run(c) })
		if p != "" {
			o.Panic = p
		}
		w.Add(emit.Case{Input: c.coq(), Observed: o.coq(), Tags: c.tags(),
			Human: map[string]any{"status": o.Status, "error": strings.TrimPrefix(o.Err, "\x00"), "token": o.Tok, "active_or_revoked": o.Act, "panic": o.Panic, "body": o.Body, "acted_for": o.Who, "device_poll_other": o.PollOther, "device_poll_self": o.PollSelf}})
	}
	for _, c := range directed() {
		add(c)
	}
	for _, c := range systematic() {
		add(c)
	}
	exhaustive := false
	if cfg.Quick || cfg.N > 0 {
		n := cfg.Count(700, 0)
		for i := 0; i < n; i++ {
			add(randomCase(r))
		}
	} else {
		exhaustive = true
		enumerate(r, add)
	}
	err := w.Close(emit.Meta{Property: "C05", Tier: cfg.Tier, Seed: cfg.Seed, Exhaustive: exhaustive,
		Extra: map[string]any{"primer_requests_not_answered_active": primerFailed},
		Rule:  "one HTTP request per case against the Provider or the LegacyServer router over refstore, with an otherwise valid grant (code+PKCE, refresh token, device code, subject token, key-signed assertion) prepared in an emptied store for the case's client X - or, for the four cross-client presentations, for a second confidential client Y whose id the request mixes with X's valid credential; varied: registration (auth method, grant set, app type, key, known), presented credential (20 forms), grant_type (9), provider flags and storage capabilities (6 switches), endpoint (4); observed also: the client the answer acted for (owner of the created token / device code, of the revoked or active token). Both tiers: directed defect inputs + systematic blocks (router x endpoint/grant x auth method x application type with fitting credential and with client_id only; router x endpoint/grant x cross-client presentation). quick: + random draws (fitting credential half of the time); thorough: + the cross product, enumerating of the grant set only the membership of the grant at stake, of the six switches the three flags and the capability at stake, and drawing the application type. Non-trivial = model path class != 0 (the request got past the first guard of its handler); distinct = distinct (input, path class).",
	})
	if err != nil {
		fmt.Fprintln(os.Stderr, err)
		os.Exit(2)
	}
}
